"""C16 — phosphosites are exactly the requested in-range S/T/Y; derived values follow.

Workload: seeded histories of set_/clear_phosphosites with hostile positions
(0, negative, past the end, duplicates, non-S/T/Y) interleaved with the
observers over 1-3 live objects.  Each hostile position is a failed operation
that must be ignored: it must not raise and must not half-apply.
Oracle: reference model of the site list + the real code on the substituted
string (fresh object).
"""
import copy
import itertools

from .. import envmode
from ..kernel import Violation, Discard, feq
from ..kernel import quiet_print as _quiet_print
from ..gen import gen_seq, KAPPA_CLAMPED, KAPPA_ABOVE
from ..minimise import list_candidates

ID = "C16"
LEVEL = "exploration"
TIERS = {
    "quick": {"runs": 2500, "wall_cap": 120, "timeout": 300, "dups": 16},
    "thorough": {"runs": 60000, "wall_cap": 1700, "timeout": 300, "dups": 64},
}
RULE = ("Each run is a seeded history (3-25 ops) of set_phosphosites (single int / list / tuple of positions drawn from valid S/T/Y, "
        "valid non-S/T/Y, 0, negatives, N+1, N+k, huge, duplicates), clear_phosphosites and the observers (get_phosphosites, "
        "get_phosphosequence, get_kappa_after_phosphorylation, get_full_phosphostatus_kappa_distribution while k<=5, "
        "get_all_phosphorylatable_sites, get_sequence) interleaved over 1-3 live objects (N 1-40). Non-trivial: at least one hostile "
        "position was offered while the object held >=1 site or the history contains a set after a clear; distinct = distinct event-log digests of such runs.")
SIG_RULE = "(op kind, argument container, hostile classes in the call, sites held bucket, object count)"
REAL = ["SequenceParameters.set_phosphosites/clear_phosphosites/get_phosphosites/get_phosphosequence/"
        "get_kappa_after_phosphorylation/get_full_phosphostatus_kappa_distribution/get_all_phosphorylatable_sites/get_sequence",
        "localcider.backend.sequence.Sequence (setPhosPhoSites, kappa, ...)"]
STUBBED = ["none inside the calls; sequenceParameters.print / backendtools chatter goes to a sink"]
ASSUMPTIONS = ["positions are Python ints (single, list or tuple); other types are outside the statement and not generated",
               "derived values are compared with the real code on a fresh object built from the substituted string (tolerance 1e-12)",
               "calls are atomic; interleaving = which live object's call runs next"]
PROBES = ["clone_of_an_object_with_sites", "dist_k_ge_9", "position_above_256", "same_list_object_passed_again", "caller_scribbles_on_returned_container", "op_not_followed_by_observation", "shuffled_copy_is_live_object", "object_created_mid_history", "related_objects", "pos_zero", "pos_negative", "pos_N_plus_1", "pos_huge", "dup_in_call", "dup_across_calls", "non_sty_in_range",
          "set_after_clear", "dist_k_ge_3", "kappa_after_with_sites", "tuple_arg", "int_arg", "hostile_with_sites_held",
          "second_object_checked"]
STY = "STY"


def gen_plan(streams, tier):
    rnd = streams.stream("plan")
    nobj = rnd.choice((1, 1, 2, 2, 3))
    objs = []
    longrun = rnd.random() < 0.03        # positions beyond 256 (where small-integer caching ends) need long sequences
    manysites = rnd.random() < 0.03      # more than 8 sites: the 2^k table outgrows one byte
    for _ in range(nobj):
        n = rnd.choice((rnd.randrange(1, 8), rnd.randrange(5, 25), rnd.randrange(10, 41)))
        cls = rnd.choice(("sty_rich", "sty_rich", "idp", "polyampholyte", "uniform", "nocharge"))
        if rnd.random() < 0.06:
            # a sequence whose (partly) phosphorylated variant is one of the arrangements with raw kappa above 1:
            # some E of such an arrangement are written as S/T/Y, and those positions are what gets requested
            target = rnd.choice(KAPPA_CLAMPED + KAPPA_CLAMPED + KAPPA_ABOVE)
            epos = [q for q, ch in enumerate(target) if ch == "E"]
            if epos:
                chosen = set(rnd.sample(epos, rnd.randrange(1, min(4, len(epos)) + 1)))
                objs.append("".join(rnd.choice("STY") if q in chosen else ch for q, ch in enumerate(target)))
                continue
        if longrun:
            n, cls = rnd.randrange(262, 330), "sty_rich"
        elif manysites:
            n, cls = rnd.randrange(10, 15), "sty_rich"
        objs.append(gen_seq(rnd, n, cls))
    if nobj > 1 and rnd.random() < 0.45 and len(objs[0]) <= 20:
        # relatives of object 0: tandem repeat (same fractions, different counts), permutation, or the same string
        s0 = objs[0]
        kind = rnd.choice(("double", "double", "triple", "perm", "same"))
        if kind in ("double", "triple"):
            rel = s0 * (2 if kind == "double" else 3)
            if rnd.random() < 0.4:
                l = list(rel); rnd.shuffle(l); rel = "".join(l)
        elif kind == "perm":
            l = list(s0); rnd.shuffle(l); rel = "".join(l)
        else:
            rel = s0
        objs[1] = rel[:40]
    ops = []
    nops = rnd.randrange(3, 26)
    hostile_w = rnd.choice((0.1, 0.35, 0.6))
    for _ in range(nops):
        o = rnd.randrange(nobj)
        s = objs[o]
        N = len(s)
        x = rnd.random()
        if 0.09 <= x < 0.12 and len(objs) < 6:
            ops.append({"k": "clone", "o": o, "via": rnd.choice(("deepcopy", "pickle", "copy"))})
            objs.append(objs[o])
            nobj += 1
            continue
        if x < 0.09 and x >= 0.04 and len(objs) < 6:
            ops.append({"k": "copy", "o": o, "via": rnd.choice(("shuffle", "shuffle_frozen_all", "permutant"))})
            objs.append(objs[o])          # same residues (a rearrangement); S/T/Y positions are resolved at run time
            nobj += 1
            continue
        if x < 0.04 and len(objs) < 5:
            base = objs[o]
            kind = rnd.choice(("same", "perm", "double"))
            if kind == "perm":
                l = list(base); rnd.shuffle(l); ns = "".join(l)
            elif kind == "double" and len(base) <= 20:
                ns = base * 2
            else:
                ns = base
            ops.append({"k": "new", "seq": ns})
            objs.append(ns)
            nobj += 1
            continue
        if x < 0.45:
            def pos():
                if rnd.random() < hostile_w * 0.15:
                    sty0 = [i + 1 for i, c in enumerate(s) if c in STY] or [1]
                    return rnd.choice(sty0) + rnd.choice((2 ** 32, -2 ** 32, 2 ** 31, 2 ** 64, -2 ** 64, 2 ** 16, 256, 65536))
                if rnd.random() < hostile_w:
                    return rnd.choice((0, -1, -rnd.randrange(1, N + 3), N + 1, N + rnd.randrange(2, 9), 10 ** rnd.randrange(3, 13),
                                       -N, -N - 1))
                sty = [i + 1 for i, c in enumerate(s) if c in STY]
                if sty and rnd.random() < 0.75:
                    if longrun and rnd.random() < 0.7:
                        hi = [q for q in sty if q > 257]
                        if hi:
                            return rnd.choice(hi[:6])       # few distinct high positions: repeats across calls are likely
                    return rnd.choice(sty)
                return rnd.randrange(1, N + 1)
            t = rnd.choice(("int", "list", "list", "tuple"))
            if t == "int":
                v = [pos()]
            else:
                v = [pos() for _ in range(rnd.randrange(0, 6))]
                if v and rnd.random() < 0.3:
                    v.append(rnd.choice(v))
            op_ = {"k": "set", "o": o, "t": t, "v": v}
            if t == "list" and rnd.random() < 0.3:
                op_["same_list"] = True        # the caller keeps one list object, edits it in place and passes it again
            if rnd.random() < 0.2:
                op_["kw"] = True               # set_phosphosites(phosphosites=...)
            ops.append(op_)
        elif x < 0.55:
            ops.append({"k": "clear", "o": o})
        else:
            ops.append({"k": "obs", "o": o, "w": rnd.choice(("sites", "pseq", "pseq", "kappa", "kappa", "dist", "all", "seq"))})
    lazy = rnd.random() < 0.4          # observers only where the plan has them (looking is itself a call)
    for op in ops:
        if op["k"] == "obs" and op["w"] in ("sites", "all", "dist") and rnd.random() < 0.3:
            op["scribble"] = True
        if lazy and op["k"] in ("set", "clear"):
            op["quiet"] = True
    nnew = sum(1 for op in ops if op["k"] in ("new", "copy", "clone"))
    return {"property": ID, "env": envmode.choose(rnd, extra=("np_err_raise",)), "noise": (rnd.randrange(1 << 30) if rnd.random() < 0.2 else None), "run_seed": streams.run_seed, "objects": objs[:len(objs) - nnew], "ops": ops}


def corpus():
    out = []
    s = "KSEKTEYKGSKEEKT"
    N = len(s)
    ops = []
    for p in (0, -1, -2, -N, N + 1, N + 5, 10 ** 9, 1, 2, 2):
        ops.append({"k": "set", "o": 0, "t": "int", "v": [p]})
        ops.append({"k": "obs", "o": 0, "w": "pseq"})
        ops.append({"k": "obs", "o": 0, "w": "kappa"})
    ops.append({"k": "set", "o": 0, "t": "list", "v": [0, 5, N + 1, 7, 5, -3, 2]})
    ops.append({"k": "obs", "o": 0, "w": "dist"})
    ops.append({"k": "clear", "o": 0})
    ops.append({"k": "set", "o": 0, "t": "tuple", "v": [N, 10, 2]})
    ops.append({"k": "obs", "o": 0, "w": "dist"})
    out.append(("hostile_positions", {"property": ID, "run_seed": 160, "objects": [s], "ops": ops}))
    out.append(("two_objects_do_not_share_sites", {"property": ID, "run_seed": 161, "objects": ["GSGSGSKE", "TSTSTSKE"], "ops": [
        {"k": "set", "o": 0, "t": "list", "v": [2, 4]}, {"k": "obs", "o": 1, "w": "sites"}, {"k": "set", "o": 1, "t": "int", "v": [1]},
        {"k": "clear", "o": 0}, {"k": "obs", "o": 1, "w": "sites"}, {"k": "obs", "o": 1, "w": "dist"}]}))
    mono = "GSKEGTKEDY"
    out.append(("monomer_then_dimer_distributions", {"property": ID, "run_seed": 163, "objects": [mono, mono * 2, mono * 3], "ops": [
        {"k": "set", "o": 0, "t": "list", "v": [2, 6]}, {"k": "obs", "o": 0, "w": "dist"},
        {"k": "set", "o": 1, "t": "list", "v": [2, 6, 12, 16]}, {"k": "obs", "o": 1, "w": "dist"}, {"k": "obs", "o": 1, "w": "kappa"},
        {"k": "set", "o": 2, "t": "tuple", "v": [2, 16, 30]}, {"k": "obs", "o": 2, "w": "dist"}, {"k": "obs", "o": 0, "w": "dist"}, {"k": "obs", "o": 2, "w": "kappa"}]}))
    out.append(("copies_have_their_own_sites", {"property": ID, "run_seed": 164, "objects": ["GSKETGSKET"], "ops": [
        {"k": "copy", "o": 0, "via": "shuffle_frozen_all"}, {"k": "set", "o": 0, "t": "list", "v": [2, 5]}, {"k": "obs", "o": 1, "w": "sites"},
        {"k": "obs", "o": 1, "w": "pseq"}, {"k": "copy", "o": 0, "via": "shuffle_frozen_all"}, {"k": "obs", "o": 2, "w": "sites"},
        {"k": "set", "o": 2, "t": "int", "v": [7]}, {"k": "obs", "o": 0, "w": "sites"}, {"k": "obs", "o": 0, "w": "kappa"},
        {"k": "copy", "o": 0, "via": "permutant"}, {"k": "obs", "o": 3, "w": "sites"}, {"k": "clear", "o": 0}, {"k": "obs", "o": 2, "w": "dist"}]}))
    out.append(("caller_edits_returned_lists", {"property": ID, "run_seed": 165, "objects": ["GSKETGSKETY"], "ops": [
        {"k": "obs", "o": 0, "w": "all", "scribble": True}, {"k": "set", "o": 0, "t": "list", "v": [2, 5, 1]}, {"k": "obs", "o": 0, "w": "sites", "scribble": True},
        {"k": "obs", "o": 0, "w": "pseq"}, {"k": "set", "o": 0, "t": "int", "v": [7]}, {"k": "obs", "o": 0, "w": "all", "scribble": True},
        {"k": "clear", "o": 0}, {"k": "set", "o": 0, "t": "tuple", "v": [11, 2, 3]}, {"k": "obs", "o": 0, "w": "dist"}]}))
    out.append(("nine_sites_distribution", {"property": ID, "run_seed": 166, "objects": ["SSSTTTYYYSKE"], "ops": [
        {"k": "set", "o": 0, "t": "list", "v": [9, 1, 5, 2, 8, 3, 7, 4, 6]}, {"k": "obs", "o": 0, "w": "dist"}, {"k": "obs", "o": 0, "w": "kappa"}]}))
    longseq = ("GSKETGSKETYAD" * 24)[:300]
    out.append(("positions_beyond_256", {"property": ID, "run_seed": 167, "objects": [longseq], "ops": [
        {"k": "set", "o": 0, "t": "list", "v": [262, 288, 262, 271]}, {"k": "obs", "o": 0, "w": "sites"}, {"k": "set", "o": 0, "t": "int", "v": [288]},
        {"k": "set", "o": 0, "t": "tuple", "v": [271, 2, 297]}, {"k": "obs", "o": 0, "w": "pseq"}, {"k": "obs", "o": 0, "w": "dist"}]}))
    out.append(("phosphostate_with_raw_kappa_above_one", {"property": ID, "run_seed": 168, "objects": ["KEKESSK", "KESEGSK", "KKSEESK"], "ops": [
        {"k": "set", "o": 0, "t": "list", "v": [5, 6]}, {"k": "obs", "o": 0, "w": "dist"}, {"k": "obs", "o": 0, "w": "kappa"},
        {"k": "set", "o": 1, "t": "list", "v": [3, 6]}, {"k": "obs", "o": 1, "w": "dist"}, {"k": "set", "o": 2, "t": "list", "v": [3, 6]}, {"k": "obs", "o": 2, "w": "dist"}]}))
    out.append(("clones_keep_their_sites", {"property": ID, "run_seed": 169, "objects": ["GSKETGSKETY"], "ops": [
        {"k": "set", "o": 0, "t": "list", "v": [2, 5]}, {"k": "clone", "o": 0, "via": "deepcopy"}, {"k": "obs", "o": 1, "w": "sites"}, {"k": "obs", "o": 1, "w": "pseq"},
        {"k": "clone", "o": 0, "via": "pickle"}, {"k": "obs", "o": 2, "w": "dist"}, {"k": "set", "o": 1, "t": "int", "v": [7]}, {"k": "obs", "o": 0, "w": "sites"},
        {"k": "obs", "o": 2, "w": "kappa"}, {"k": "set", "o": 0, "t": "list", "v": [2 ** 32 + 10, 11 - 2 ** 32, 10]}, {"k": "obs", "o": 0, "w": "sites"}]}))
    out.append(("order_is_first_set_order", {"property": ID, "run_seed": 162, "objects": ["SKTEYKSET"], "ops": [
        {"k": "set", "o": 0, "t": "list", "v": [7, 1, 5]}, {"k": "set", "o": 0, "t": "list", "v": [3, 7]},
        {"k": "obs", "o": 0, "w": "dist"}, {"k": "obs", "o": 0, "w": "kappa"}]}))
    return out


class Fresh(object):
    """Values of the real code on a fresh object built from a string, memoised per string."""

    def __init__(self, SP, ctx):
        self.SP = SP
        self.memo = {}
        self.ctx = ctx

    def row(self, s):
        if s not in self.memo:
            o = self.SP(s)
            self.memo[s] = (o.get_kappa(), o.get_fraction_positive(), o.get_fraction_negative(), o.get_FCR(),
                            o.get_NCPR(), o.get_mean_hydropathy())
            self.ctx.count("fresh_oracle_objects")
        return self.memo[s]


def execute(plan, ctx):
    envmode.apply(plan.get("env"), ctx)
    import localcider.sequenceParameters as spmod
    from localcider.sequenceParameters import SequenceParameters
    spmod.print = _quiet_print
    if plan.get("noise") is not None:
        from ..noise import noise_prelude
        noise_prelude(ctx, plan["noise"])
    fresh = Fresh(SequenceParameters, ctx)
    seqs = list(plan["objects"])
    objs = [SequenceParameters(s) for s in seqs]
    caller_list = []
    try:
        import inspect
        kw_ok = "phosphosites" in inspect.signature(SequenceParameters.set_phosphosites).parameters
    except Exception:
        kw_ok = False
    scribbled = {}           # id -> object: containers the caller has edited (kept alive so ids stay unique)
    model = [[] for _ in seqs]          # 1-based positions, first-set order
    if len(seqs) > 1 and (sorted(seqs[1]) == sorted(seqs[0]) or sorted(seqs[1]) == sorted(seqs[0] * 2) or sorted(seqs[1]) == sorted(seqs[0] * 3)):
        ctx.probe("related_objects")
    cleared = [False for _ in seqs]

    def sub(i, on=None):
        s = list(seqs[i])
        for j, p in enumerate(model[i]):
            if on is None or on[j]:
                s[p - 1] = "E"
        return "".join(s)

    def check_basic(i, why):
        got = objs[i].get_phosphosites()
        if id(got) in scribbled:
            raise Discard("a container the caller had edited was handed out again (whether results are private copies is not said)")
        if list(got) != model[i]:
            raise Violation("sites_mismatch", "sites_mismatch",
                            "object %d (%s): get_phosphosites()=%r, requested in-range S/T/Y in first-set order=%r (%s)" % (
                                i, seqs[i], got, model[i], why))
        if objs[i].get_sequence() != seqs[i]:
            raise Violation("sequence_changed", "sequence_changed", "object %d: stored sequence is now %r, was %r" % (
                i, objs[i].get_sequence(), seqs[i]))

    def observe(i, w, scrib=False):
        k = len(model[i])
        if w == "sites":
            check_basic(i, "observer")
            if scrib:
                got = objs[i].get_phosphosites()
                if isinstance(got, list):
                    got.reverse(); got.append(1)
                    scribbled[id(got)] = got
                    ctx.probe("caller_scribbles_on_returned_container")
        elif w == "seq":
            check_basic(i, "observer")
        elif w == "all":
            got = objs[i].get_all_phosphorylatable_sites()
            if id(got) in scribbled:
                raise Discard("a container the caller had edited was handed out again (whether results are private copies is not said)")
            want = [j + 1 for j, c in enumerate(seqs[i]) if c in STY]
            if list(got) != want:
                raise Violation("all_sites_mismatch", "all_sites", "get_all_phosphorylatable_sites()=%r want %r" % (got, want))
            if scrib and isinstance(got, list):
                got.reverse(); got.append(1); got.append(len(seqs[i]) + 5)     # a caller edits the list it was handed
                scribbled[id(got)] = got
                ctx.probe("caller_scribbles_on_returned_container")
        elif w == "pseq":
            got = objs[i].get_phosphosequence()
            if got != sub(i):
                raise Violation("phosphosequence_mismatch", "pseq", "object %d (%s) sites %r: get_phosphosequence()=%r want %r" % (
                    i, seqs[i], model[i], got, sub(i)))
        elif w == "kappa":
            got = objs[i].get_kappa_after_phosphorylation()
            want = fresh.row(sub(i))[0]
            if k:
                ctx.probe("kappa_after_with_sites")
            if not feq(got, want, 1e-12):
                raise Violation("kappa_after_mismatch", "kappa_after", "object %d (%s) sites %r: kappa after phosphorylation %r, kappa of %s is %r" % (
                    i, seqs[i], model[i], got, sub(i), want))
        elif w == "dist":
            if k > 5 and not (k <= 10 and len(seqs[i]) <= 14):
                return
            if k > 8:
                ctx.probe("dist_k_ge_9")
            if k >= 3:
                ctx.probe("dist_k_ge_3")
            got = objs[i].get_full_phosphostatus_kappa_distribution()
            if len(got) != 2 ** k:
                raise Violation("distribution_mismatch", "dist_len", "k=%d sites but %d entries" % (k, len(got)))
            # the i-th flag of a status tuple belongs to the i-th site: in the order get_phosphosites() lists them,
            # or — the docstring's own example — in order of position; either reading is accepted, consistently
            orders = [list(range(k))]
            by_pos = sorted(range(k), key=lambda j: model[i][j])
            if by_pos != orders[0]:
                orders.append(by_pos)
            failure = None
            for order in orders:
                failure = None
                for r, (row, on) in enumerate(zip(got, itertools.product((0, 1), repeat=k))):
                    st = tuple(int(x) for x in row[6])
                    if st != on:
                        failure = ("dist_order", "entry %d has status %r, binary counting order gives %r" % (r, row[6], on))
                        break
                    flags = [0] * k
                    for pos_in_tuple, site_j in enumerate(order):
                        flags[site_j] = on[pos_in_tuple]
                    want = fresh.row(sub(i, flags))
                    bad = [c for c in range(6) if not feq(row[c], want[c], 1e-12)]
                    if bad:
                        c = bad[0]
                        failure = ("dist_value", "object %d (%s) sites %r status %r column %d: %r, substituted sequence %s gives %r" % (
                            i, seqs[i], model[i], on, c, row[c], sub(i, flags), want[c]))
                        break
                if failure is None:
                    break
            if failure is not None:
                raise Violation("distribution_mismatch", failure[0], failure[1])
        ctx.count("observations")

    import localcider.backend.sequence as seqmod
    from ..clock import SimClock
    from ..rng import RngModule, TapeRandom, UniformDriver
    from localcider.sequencePermutants import SequencePermutants
    clock = SimClock(ctx, ctx.streams.stream("clock"), "normal")
    drv = UniformDriver(ctx.streams.stream("tape"))
    seqmod.time = clock
    seqmod.rng = RngModule(lambda: TapeRandom("move", ctx, drv, 5000))
    for n, op in enumerate(plan["ops"]):
        if op["k"] == "clone":
            # a copy made with the standard protocols is an object of its own that starts from the original's state
            import copy as _copy
            import pickle as _pickle
            i = op["o"] % len(objs)
            try:
                twin = _pickle.loads(_pickle.dumps(objs[i])) if op["via"] == "pickle" else _copy.deepcopy(objs[i])
                start = list(twin.get_phosphosites())
                if twin.get_sequence() != seqs[i]:
                    raise ValueError("different sequence")
            except Exception:
                twin = None
            if twin is None or any((not isinstance(q, int)) or q < 1 or q > len(seqs[i]) or seqs[i][q - 1] not in STY for q in start) or len(set(start)) != len(start):
                # copying is not part of the statement: an object that cannot be copied, or whose copy does not
                # start from a well-formed site list, is simply not used (a placeholder keeps the indices stable)
                ctx.probe("object_cannot_be_copied")
                twin = SequenceParameters(seqs[i])
                start = []
            objs.append(twin)
            seqs.append(seqs[i])
            model.append(start)            # what the copy starts with is its baseline; from here on it is an object of its own
            cleared.append(cleared[i])
            ctx.probe("clone_of_an_object_with_sites" if model[i] else "clone_of_an_object")
            ctx.log.emit("clone", o=i, via=op["via"])
            for j in range(len(objs)):
                check_basic(j, "after cloning object %d" % i)
            continue
        if op["k"] == "copy":
            i = op["o"] % len(objs)
            if op["via"] == "permutant":
                child = SequencePermutants(seqs[i]).get_permutant()
            elif op["via"] == "shuffle_frozen_all":
                child = objs[i].get_shuffled_sequence(set(range(len(seqs[i]))))
            else:
                child = objs[i].get_shuffled_sequence(set())
            cs = child.get_sequence()
            seqs.append(cs)
            objs.append(child)
            start = list(child.get_phosphosites())
            if any((not isinstance(q, int)) or q < 1 or q > len(cs) or cs[q - 1] not in STY for q in start) or len(set(start)) != len(start):
                raise Violation("sites_mismatch", "sites_mismatch", "a shuffled copy of object %d (%s -> %s) starts with phosphosites %r, which are not in-range S/T/Y positions of it" % (i, seqs[i], cs, start))
            model.append(start)          # whatever well-formed list the copy starts with is its own from now on
            cleared.append(False)
            ctx.probe("shuffled_copy_is_live_object")
            ctx.log.emit("copy", o=i, via=op["via"], child=cs)
            for j in range(len(objs)):
                check_basic(j, "after copy of object %d" % i)
            continue
        if op["k"] == "new":
            seqs.append(op["seq"])
            objs.append(SequenceParameters(op["seq"]))
            model.append([])
            cleared.append(False)
            ctx.probe("object_created_mid_history")
            ctx.log.emit("new", seq=op["seq"])
            check_basic(len(objs) - 1, "new object")
            continue
        i = op["o"] % len(objs)
        s = seqs[i]
        N = len(s)
        if op["k"] == "set":
            v = [int(x) for x in op["v"]]
            classes = set()
            for p in v:
                if p == 0:
                    classes.add("zero"); ctx.probe("pos_zero")
                elif p < 0:
                    classes.add("neg"); ctx.probe("pos_negative")
                elif p == N + 1:
                    classes.add("N+1"); ctx.probe("pos_N_plus_1")
                elif 256 < p <= N:
                    ctx.probe("position_above_256")
                    if s[p - 1] not in STY:
                        classes.add("nonsty"); ctx.probe("non_sty_in_range")
                    elif p in model[i]:
                        classes.add("dupx"); ctx.probe("dup_across_calls")
                elif p > 10 * N + 100:
                    classes.add("huge"); ctx.probe("pos_huge")
                elif p > N:
                    classes.add("beyond")
                elif s[p - 1] not in STY:
                    classes.add("nonsty"); ctx.probe("non_sty_in_range")
                else:
                    if p in model[i]:
                        classes.add("dupx"); ctx.probe("dup_across_calls")
            if len(set(v)) < len(v):
                classes.add("dup"); ctx.probe("dup_in_call")
            hostile = classes & {"zero", "neg", "N+1", "huge", "beyond", "nonsty"}
            if hostile:
                ctx.fault("hostile_position_call")
                if model[i]:
                    ctx.probe("hostile_with_sites_held")
                    ctx.nontrivial = True
            if cleared[i]:
                ctx.probe("set_after_clear")
                ctx.nontrivial = True
            if op["t"] == "int":
                arg = v[0]
                ctx.probe("int_arg")
            elif op["t"] == "tuple":
                arg = tuple(v)
                ctx.probe("tuple_arg")
            else:
                arg = list(v)
                if op.get("same_list"):
                    del caller_list[:]
                    caller_list.extend(v)
                    arg = caller_list
                    ctx.probe("same_list_object_passed_again")
            ctx.sig("set", op["t"], ",".join(sorted(classes)), min(len(model[i]), 4), len(objs))
            try:
                if op.get("kw") and kw_ok:
                    objs[i].set_phosphosites(phosphosites=arg)
                else:
                    objs[i].set_phosphosites(arg)
                raised = None
            except Exception as e:
                raised = e
            ctx.log.emit("set", o=i, t=op["t"], v=v, raised=type(raised).__name__ if raised else None)
            if raised is not None:
                raise Violation("set_raised", "sites_mismatch", "object %d (%s, N=%d): set_phosphosites(%r) raised %r" % (i, s, N, arg, raised))
            for p in v:
                if 1 <= p <= N and s[p - 1] in STY and p not in model[i]:
                    model[i].append(p)
        elif op["k"] == "clear":
            objs[i].clear_phosphosites()
            model[i] = []
            cleared[i] = True
            ctx.log.emit("clear", o=i)
            ctx.sig("clear", len(objs))
        else:
            ctx.sig("obs", op["w"], min(len(model[i]), 6), len(objs))
            observe(i, op["w"], bool(op.get("scribble")))
            ctx.log.emit("obs", o=i, w=op["w"], k=len(model[i]))
        if op.get("quiet"):
            ctx.probe("op_not_followed_by_observation")
            continue
        # after every op: every live object's list and sequence follow the model
        for j in range(len(objs)):
            check_basic(j, "after op %d (%s on object %d)" % (n, op["k"], i))
            if j != i:
                ctx.probe("second_object_checked")
        if op["k"] != "obs":
            observe(i, "pseq")
    for j in range(len(objs)):
        observe(j, "pseq")
        observe(j, "kappa")
    ctx.count("ops", len(plan["ops"]))


def shrink(plan, res):
    for c in list_candidates(plan, "ops"):
        yield c
    for n, op in enumerate(plan["ops"]):
        if op["k"] == "set" and len(op["v"]) > 1:
            for j in range(len(op["v"])):
                c = copy.deepcopy(plan)
                del c["ops"][n]["v"][j]
                if c["ops"][n]["t"] == "int" and len(c["ops"][n]["v"]) != 1:
                    continue
                yield c
    for i, s in enumerate(plan["objects"]):
        if len(s) > 1:
            c = copy.deepcopy(plan)
            c["objects"][i] = s[:-1]
            yield c

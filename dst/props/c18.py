"""C18 — a Wang-Landau run obeys the WL rule and its outputs are self-consistent.

The simulator owns WL's RNG (move choice + acceptance draw, placed adversarially
relative to the model's acceptance probability), the moves' RNG, the clock and
the log directory (SimFS with EIO / ENOSPC / open errors, crash with torn write,
restart into the dirty directory).  An independent lock-step model of the WL
bookkeeping is compared after every step, at every crash point and on the
final outputs.  Observation: RNG seam, class-level move wrappers, every byte
written through SimFS, the returned array, and the guarded per-step hook (the
check falls back to seam-only observation when the hook is absent).
"""
import copy
import math
import re

from .. import envmode, entropy
from ..kernel import Violation, Budget, Discard, SimCrash, DrawCap, feq, cjson
from ..kernel import quiet_print as _quiet_print
from ..gen import gen_seq, same_classes_other_letters
from ..clock import SimClock, MODES
from ..rng import RngModule, MTRandom, TapeRandom, UniformDriver
from ..simfs import SimFS

ID = "C18"
LEVEL = "exploration"
TIERS = {
    "quick": {"runs": 900, "wall_cap": 170, "timeout": 450, "dups": 8, "step_cap": 1200},
    "thorough": {"runs": 9000, "wall_cap": 1750, "timeout": 900, "dups": 32, "step_cap": 4000},
}
RULE = ("Each run: one or two whole Wang-Landau runs (WangLandauMachine.run, directly or through SequencePermutants) on a seeded 6-16 residue "
        "sequence given as string / fresh Sequence / Sequence with kappa cached, with seeded geometry (M in {2,3,4,5,8,10}, range [a/M,b/M], "
        "nbins=b-a), flat-check period 1-60, flatness criterion 0.1-0.9, convergence exp(c) (1-5 iterations), under a seeded clock policy, "
        "a move-RNG mode (real MT from the simulated clock / tape / boundary-biased tape), an acceptance-draw policy (uniform or adversarial: "
        "u placed at P(1-1e-6), P(1+1e-6), 0, P/2, (1+P)/2, largest float below 1; u=0 on out-of-range proposals) and a fault plan on the log "
        "directory (none; EIO at the k-th FS event; ENOSPC after B bytes; EACCES on one log file; crash at the k-th FS event with a torn write; "
        "optionally followed by a restart into the dirty directory). Non-trivial: >=20 counted steps with at least one accepted, one rejected "
        "and one flat check, or an injected fault fired; distinct = distinct event-log digests of such runs.")
SIG_RULE = "(start in range?, proposal in range?, P<1?, accepted?, same bin?, flat-check outcome, iteration#) x geometry (M,a,b)"
REAL = ["localcider.backend.wang_landau.WangLandauMachine (__init__, run, run_normal_WL, __run_flatcheck, bin geometry, mklog/writeLog/fprint*)",
        "localcider.backend.sequence.Sequence (the four moves, kappa, deltaMax)", "SequencePermutants.initializeWangLandauParameters", "numpy",
        "CPython io text/buffer layers over the simulated raw device"]
STUBBED = ["wang_landau.rng and sequence.rng -> tape / counted MT", "wang_landau.t, wang_landau.time, sequence.time -> SimClock",
           "wang_landau.open -> SimFS", "wang_landau.print -> sink"]
ASSUMPTIONS = ["the requested range coincides with the equal partition (binmin=a/M, binmax=b/M, nbins=b-a); other requests have no exact meaning in bins",
               "the bin of a kappa is the bin with the nearest centre (so a kappa above 1, which the delta-max heuristic produces for some compositions, falls in the top bin); runs in which a kappa sits within 1e-9 of a bin edge are DISCARDED (ambiguity window)",
               "a flat check with an all-zero local histogram follows the implementation (0/0) and is not asserted either way",
               "log files are parsed into numeric rows (format-agnostic); values compared within the printed precision; seqlog cadence, elapsed-time output, "
               "number/order of RNG draws inside a move and which move is chosen are not asserted",
               "when run() returns normally every output must agree completely with the model, whether or not a fault was injected (this is what makes "
               "swallowed write errors, stale files after a restart and retries on the same machine visible); when it fails after an injected fault "
               "(OSError / crash) nothing is asserted about the disk: the statement is about runs, not about their wreckage",
               "convergence within the step cap is not required (BUDGET); non-termination of the block/cluster moves is BUDGET"]
PROBES = ["run_with_no_steps", "prelude_on_related_sequence", "step_decided_without_draw", "rerun_on_same_machine", "kappa_above_one_binned_to_top", "stopped_at_f_equal_threshold", "flatcheck_exact_tie", "start_outside_range", "proposal_outside_range_with_u_zero", "u_just_below_P", "u_just_above_P", "accepted_uphill", "rejected_step",
          "flatcheck_flat", "flatcheck_not_flat", "converged", "step_cap_hit", "hook_assisted", "seam_only", "fs_fault_fired", "crash_fired",
          "restart_into_dirty_dir", "restart_after_crash", "oserror_propagated", "partial_range", "warm_sequence_object", "permutants_api",
          "iteration_ge_3", "same_bin_accept", "multi_bin_visit"]

P_FS = 1 / (1 + 41.5 + 69.3 + 78.2)
P_SC = 41.5 / (1 + 41.5 + 69.3 + 78.2)
P_SB = 69.3 / (1 + 41.5 + 69.3 + 78.2)
ONE_MINUS = 1.0 - 2.0 ** -53
OUTDIR = "/sim/wl"
FILES = ("hlog.txt", "glog.txt", "seqlog.txt", "histogram_bins.txt", "DOS.txt", "DOS_local.txt")


class StepCap(BaseException):
    pass


# ------------------------------------------------------------------ plan
def gen_wl_seq(rnd):
    if rnd.random() < 0.06:
        # both charge signs and at least 18 uncharged residues: the third branch of the delta-max search
        n0 = rnd.randrange(18, 24)
        l = [rnd.choice("KR") for _ in range(rnd.randrange(2, 4))] + [rnd.choice("DE") for _ in range(rnd.randrange(1, 4))] + \
            [rnd.choice("GSTNQAP") for _ in range(n0)]
        rnd.shuffle(l)
        return "".join(l)
    n = rnd.choice((6, 7, 8, 8, 9, 10, 10, 12, 12, 14, 16))
    while True:
        cls = rnd.choice(("polyampholyte", "polyampholyte", "idp", "uniform", "polyelectrolyte", "sty_rich"))
        s = gen_seq(rnd, n, cls)
        p = sum(c in "KR" for c in s)
        m = sum(c in "DE" for c in s)
        if max(p, m) >= 2 and (min(p, m) >= 1 or n - p - m >= 1) and (n - p - m + min(p, m)) >= 2:
            return s


def gen_plan(streams, tier):
    rnd = streams.stream("plan")
    seq = gen_wl_seq(rnd)
    M = rnd.choice((2, 2, 3, 3, 4, 5, 5, 6, 7, 8, 10, 12, 20))
    if rnd.random() < 0.5:
        a, b = 0, M
    else:
        a = rnd.randrange(0, M)
        b = rnd.randrange(a + 1, M + 1)
    cfg = {"M": M, "a": a, "b": b, "flatchk": rnd.choice((1, 2, 3, 5, 7, 10, 10, 20, 20, 30, 50, 60)),
           "flatcrit": rnd.choice((0.1, 0.2, 0.3, 0.5, 0.5, 0.7, 0.8, 0.9, 0.0, 1.0)),
           "c": rnd.choice((0.7, 0.6, 0.4, 0.3, 0.3, 0.2, 0.2, 0.1, 0.07, 0.05))}
    if rnd.random() < 0.08:
        cfg["conv_exact_k"] = rnd.choice((1, 2, 2, 3))       # threshold equal to the k-th value of f itself
    elif rnd.random() < 0.04:
        cfg["c"] = rnd.choice((1.1, 1.5, 3.0))               # threshold above the initial f = e: the run must not take a single step
    frnd = streams.stream("faults")
    fault = {"kind": "none"}
    if frnd.random() < 0.4:
        k = frnd.choice(("eio", "eio", "enospc", "eacces", "crash", "crash", "crash"))
        at = frnd.choice((frnd.randrange(1, 12), frnd.randrange(8, 40), frnd.randrange(20, 200), frnd.randrange(50, 600)))
        if k == "eio":
            fault = {"kind": "eio", "at": at}
        elif k == "enospc":
            fault = {"kind": "enospc", "bytes": frnd.choice((0, 10, 60, 150, 400, 1500))}
        elif k == "eacces":
            fault = {"kind": "eacces", "file": frnd.choice(FILES)}
        else:
            fault = {"kind": "crash", "at": at, "torn": frnd.randrange(0, 40)}
    prelude = None
    if rnd.random() < 0.2:
        # earlier activity in the same process on a *different* sequence with the same numbers of +, - and neutral residues
        prelude = {"seq": same_classes_other_letters(rnd, seq), "how": rnd.choice(("dmax_perm", "dmax_perm", "kappa", "machine"))}
    restart = frnd.random() < (0.5 if fault["kind"] != "none" else 0.12)
    if restart and frnd.random() < 0.4:
        restart = "same_machine"       # the caller retries run() on the same machine object (e.g. after a transient I/O error)
    return {"property": ID, "env": envmode.choose(rnd), "run_seed": streams.run_seed, "seq": seq, "cfg": cfg,
            "input": rnd.choice(("string", "string", "object_fresh", "object_warm", "permutants_api")),
            "frozen": sorted(rnd.sample(range(len(seq)), rnd.randrange(0, 3))) if rnd.random() < 0.15 else [],
            "move_rng": rnd.choice(("mt", "tape", "tape", "biased")), "clock_mode": rnd.choice(MODES),
            "accept_policy": rnd.choice(("uniform", "adversarial", "adversarial")),
            "move_weights": [rnd.choice((0, 1, 1, 3)) for _ in range(4)],
            "step_cap": TIERS[tier]["step_cap"], "fault": fault, "restart": restart, "prelude": prelude,
            "noise": (rnd.randrange(1 << 30) if rnd.random() < 0.15 else None)}


def corpus():
    out = []

    def mk(name, seq, cfg, **kw):
        p = {"property": ID, "run_seed": 180 + len(out), "seq": seq, "cfg": cfg, "input": "string", "frozen": [], "move_rng": "tape",
             "clock_mode": "normal", "accept_policy": "adversarial", "move_weights": [1, 1, 1, 1], "step_cap": 1500,
             "fault": {"kind": "none"}, "restart": False}
        p.update(kw)
        out.append((name, p))
    full = {"M": 5, "a": 0, "b": 5, "flatchk": 20, "flatcrit": 0.5, "c": 0.3}
    mk("basic_full_range", "GKEGKEKEGS", full)
    mk("partial_range_start_outside", "KKEEGKEGSG", {"M": 5, "a": 1, "b": 3, "flatchk": 10, "flatcrit": 0.3, "c": 0.4})
    mk("warm_sequence_object", "GKEGKEKEGS", full, input="object_warm")
    mk("permutants_api_mt_clock_stall", "EKEKGKEGSD", {"M": 4, "a": 0, "b": 4, "flatchk": 7, "flatcrit": 0.2, "c": 0.2}, input="permutants_api",
       move_rng="mt", clock_mode="stall")
    mk("flatcheck_every_step", "GKEGKEKEGS", {"M": 2, "a": 0, "b": 2, "flatchk": 1, "flatcrit": 0.9, "c": 0.2})
    mk("crash_then_restart", "GKEGKEKEGS", full, fault={"kind": "crash", "at": 45, "torn": 7}, restart=True)
    mk("restart_after_clean_run", "GKEGKEKEGS", full, restart=True)
    mk("retry_on_same_machine_after_eio", "GKEGKEKEGS", full, fault={"kind": "eio", "at": 60}, restart="same_machine")
    mk("retry_on_same_machine_after_enospc", "GKEGKEKEGS", full, fault={"kind": "enospc", "bytes": 260}, restart="same_machine")
    mk("second_run_on_same_machine", "GKEGKEKEGS", full, restart="same_machine")
    mk("enospc_mid_run", "GKEGKEKEGS", full, fault={"kind": "enospc", "bytes": 150})
    mk("eio_during_init", "GKEGKEKEGS", full, fault={"kind": "eio", "at": 5})
    mk("eacces_on_dos", "GKEGKEKEGS", full, fault={"kind": "eacces", "file": "DOS.txt"}, restart=True)
    mk("flatness_ties_crit_0.8", "GKEGKEKEGS", {"M": 2, "a": 0, "b": 2, "flatchk": 5, "flatcrit": 0.8, "c": 0.2}, accept_policy="uniform")
    mk("flatness_ties_crit_0.5", "EKEKGKEGSD", {"M": 3, "a": 0, "b": 3, "flatchk": 6, "flatcrit": 0.5, "c": 0.2}, accept_policy="uniform")
    mk("threshold_equals_f_after_2_roots", "GKEGKEKEGS", {"M": 2, "a": 0, "b": 2, "flatchk": 4, "flatcrit": 0.3, "c": 0.3, "conv_exact_k": 2}, accept_policy="uniform")
    mk("related_sequence_analysed_first", "GKEGKEKEGS", full, prelude={"seq": "ARDASDRDAT", "how": "dmax_perm"})
    mk("machine_for_related_sequence_first", "GKEGKEKEGS", full, prelude={"seq": "ARDASDRDAT", "how": "machine"})
    mk("threshold_above_e_no_steps", "GKEGKEKEGS", {"M": 5, "a": 0, "b": 5, "flatchk": 4, "flatcrit": 0.5, "c": 1.2})
    mk("flatness_criterion_zero", "GKEGKEKEGS", {"M": 4, "a": 0, "b": 4, "flatchk": 2, "flatcrit": 0.0, "c": 0.2}, accept_policy="uniform")
    mk("neutral_rich_24mer", "GSTKNQAGSTENQAGSTKNQAGSD", {"M": 3, "a": 0, "b": 3, "flatchk": 10, "flatcrit": 0.2, "c": 0.4}, step_cap=300)
    mk("seam_only_mode", "GKEGKEKEGS", full, no_hook=True)
    mk("uniform_policy_many_iterations", "KEKEGG", {"M": 3, "a": 0, "b": 3, "flatchk": 30, "flatcrit": 0.2, "c": 0.05}, accept_policy="uniform",
       move_weights=[1, 1, 0, 0])
    return out


def conv_of(cfg):
    """the convergence threshold handed to the machine: exp(c), or (conv_exact_k) the value f itself
    takes after k square roots, computed the way numpy users would (np.exp(1) ** 0.5 ** ...)"""
    k = cfg.get("conv_exact_k")
    if not k:
        return math.exp(cfg["c"])
    import numpy as np
    f = np.exp(1)
    for _ in range(k):
        f = f ** 0.5
    return float(f)


# ------------------------------------------------------------------ reference model
class Model(object):
    def __init__(self, cfg):
        self.M, self.a, self.b = cfg["M"], cfg["a"], cfg["b"]
        self.flatchk, self.flatcrit = int(cfg["flatchk"]), float(cfg["flatcrit"])
        self.conv = conv_of(cfg)
        self.pending_tie = False
        self.g = [0.0] * self.M
        self.H = [0] * self.M
        self.f = math.e
        self.nstep = 0
        self.steps = 0
        self.counted = 0
        self.niter = 0
        self.nchecks = 0
        self.cur = None
        self.idx = None
        self.done = not (self.f > self.conv)
        self.rows = {"hlog": [], "glog": []}
        self.iter_end_rows = set()
        self.iter_headers = 1          # "iter 1:" is written up front
        self.last_hlocal = {}

    def centres(self):
        return [(i + 0.5) / self.M for i in range(self.M)]

    def bin(self, k):
        """nearest centre; second value: distance of k to the nearest bin edge (ambiguity window)"""
        c = self.centres()
        best = min(range(self.M), key=lambda i: (abs(c[i] - k), i))
        edge = min(abs(k - j / self.M) for j in range(1, self.M)) if self.M > 1 else 1.0
        return best, edge

    def in_range(self, i):
        return self.a <= i <= self.b - 1

    def accept_prob(self, idx_new):
        if not self.in_range(idx_new):
            return 0.0
        d = self.g[self.idx] - self.g[idx_new]
        if d >= 0:
            return 1.0
        return math.exp(d)          # underflows gracefully: denormal down to about -745.13, then exactly 0.0

    def book(self, accepted, q, idx_new, skip):
        """applies one step; returns flat-check info or None"""
        if accepted:
            self.cur, self.idx = q, idx_new
        if not skip:
            self.g[self.idx] += math.log(self.f)
            self.H[self.idx] += 1
            self.counted += 1
        self.nstep += 1
        self.steps += 1
        if self.nstep % self.flatchk != 0:
            return None
        self.nchecks += 1
        hl = self.H[self.a:self.b]
        mean = sum(hl) / float(len(hl))
        info = {"hlocal": list(hl), "mean": mean, "ambiguous": False}
        if mean == 0:
            flat = None          # implementation-defined (0/0)
            info["ambiguous"] = True
        else:
            # the rule in floating point (what any implementation computes) and in exact rational
            # arithmetic with the criterion read as the decimal the caller wrote; only when the two
            # disagree (a rounding artefact) is the check an ambiguity window
            flat = all((h / mean) >= self.flatcrit for h in hl)
            from fractions import Fraction
            crit = Fraction(repr(self.flatcrit))
            tot = sum(hl)
            exact = all(Fraction(h * len(hl), tot) >= crit for h in hl)
            # equivalent formulations an implementation may use; all must agree with exact arithmetic,
            # otherwise the outcome hinges on float rounding and is not asserted
            alt1 = all(h >= self.flatcrit * mean for h in hl)
            alt2 = all(h * len(hl) >= self.flatcrit * tot for h in hl)
            if not (exact == flat == alt1 == alt2):
                info["ambiguous"] = True
            if any(Fraction(h * len(hl), tot) == crit for h in hl):
                info["tie"] = True
        info["flat"] = flat
        self.nstep = 0
        return info

    def apply_flat(self, info):
        """called once the flat decision is known (model's or, inside an ambiguity window, the implementation's)"""
        self.rows["hlog"].append([self.nchecks_in_iter_inc()] + list(info["hlocal"]))
        if info["flat"]:
            self.iter_end_rows.add(len(self.rows["hlog"]))
        self.last_hlocal[self.niter + 1] = list(info["hlocal"])
        if info["flat"]:
            f_iter = self.f
            self.f = math.sqrt(self.f)
            self.H = [0] * self.M
            self.niter += 1
            self.rows["glog"].append([self.niter] + list(self.g))
            self.iter_f = getattr(self, "iter_f", {})
            self.iter_f[self.niter] = f_iter
            if abs(self.f - self.conv) <= 1e-12 * self.f:
                self.pending_tie = True          # math.sqrt vs **0.5 may differ in the last bit: resolved from the hook's f
            elif self.f > self.conv:
                self.iter_headers += 1
            else:
                self.done = True

    def nchecks_in_iter_inc(self):
        return self.nchecks


# ------------------------------------------------------------------ log parsing
NUM = re.compile(r"^[+-]?(\d+\.?\d*|\.\d+)([eE][+-]?\d+)?$|^[+-]?(inf|nan)$")


def tok_tol(tok):
    """half a unit in the last printed digit (also for exponent notation)"""
    t = tok.lower().lstrip("+-")
    mant, _, ex = t.partition("e")
    d = len(mant.split(".")[1]) if "." in mant else 0
    try:
        e10 = int(ex) if ex else 0
    except ValueError:
        e10 = 0
    return 0.5000001 * 10 ** (e10 - d) if (d or ex) else 1e-9


def parse_rows(text):
    """complete lines -> list of rows; a row is a list of (token, value|None)."""
    rows = []
    for line in text.split("\n"):
        toks = [t for t in re.split(r"[,;\s]+", line.strip()) if t]
        if not toks or toks[0].startswith("#"):
            continue
        row = []
        for t in toks:
            row.append((t, float(t) if NUM.match(t) else None))
        rows.append(row)
    return rows


def numeric(row):
    return all(v is not None for _, v in row)


# ------------------------------------------------------------------ the simulation of one WL run
class WLSim(object):
    def __init__(self, plan, ctx, fs, wl, seqmod, Sequence, run_no):
        self.plan, self.ctx, self.fs, self.wl, self.seqmod, self.Sequence = plan, ctx, fs, wl, seqmod, Sequence
        self.cfg = plan["cfg"]
        self.outdir = fs.root + "/wl"
        self.model = Model(self.cfg)
        self.run_no = run_no
        self.rnd = ctx.streams.stream("wl_tape_%d" % run_no)
        self.input_sorted = sorted(plan["seq"])
        self.prop = None              # proposal made by a move and not yet decided
        self.draws_before_move = 0
        self.pending_hook = {}
        self.step = None             # info on the step whose u was just drawn
        self.kappa_memo = {}
        self.hook_seen = False
        self.hook_capable = bool(getattr(wl, "_VERIF_ENABLED", False)) and hasattr(wl, "_VERIF_HOOK") and not plan.get("no_hook")
        self.use_hook = False
        self.in_step = False
        self.inflight_rows = 0
        self.file_off = dict((f, 0) for f in FILES)
        self.disk_rows = dict((f, []) for f in FILES)
        self.accepted_n = 0
        self.rejected_n = 0
        self.bins_visited = set()
        self.started = False
        self.synced = True
        self.fired0 = fs.errors_fired
        self.last_flat_info = None
        self.early = None
        self.follow_mode = False
        self.fol_n, self.fol_S, self.fol_V = 0, 0.0, 0.0

    # --- oracles
    def kappa(self, s):
        if s not in self.kappa_memo:
            self.kappa_memo[s] = float(self.Sequence(s).kappa())
        return self.kappa_memo[s]

    def bin_of(self, s, hook_idx=None):
        k = self.kappa(s)
        if k < -1e-12 or k > 1 + 1e-9:
            # the delta-max heuristic underestimates for some compositions (kappa up to ~2): the bin is still the
            # one with the nearest centre, i.e. the top bin, which is what "its kappa bin" can only mean
            self.ctx.probe("kappa_above_one_binned_to_top")
        i, edge = self.model.bin(k)
        if edge < 1e-9:
            if hook_idx is not None and self.use_hook and abs(hook_idx - i) <= 1:
                return hook_idx
            raise Discard("kappa within 1e-9 of a bin edge")
        return i

    def viol(self, kind, key, msg):
        if not self.use_hook and entropy.used():
            # without the hook every decision is attributed to a tape draw; a run that also draws random
            # numbers elsewhere (numpy generators, the global `random`, a helper module's own generator)
            # cannot be attributed
            raise Discard("the run draws random numbers that do not pass the seam and the hook is not in use: decisions cannot be attributed to tape draws")
        raise Violation(kind, key, "run %d step %d: %s" % (self.run_no, self.model.steps, msg))

    # --- callbacks from the seams
    # Lifecycle of a step: move -> [proposal hook] -> [acceptance draw] -> [booked hook] -> next step.
    # The number of random draws per step is not part of the statement: an implementation may skip the
    # acceptance draw when the probability is 0 or 1 (the decision is then deterministic), and may draw
    # more than one move-selection number.  A WL draw while a proposal is undecided is the acceptance draw;
    # any other WL draw is a move-selection draw.
    def on_move(self, kind, parent, child):
        if self.early is not None:
            self.early_was_selection()
        if self.prop is not None and "proposal" not in self.pending_hook and self.hook_live():
            self.prop = None            # e.g. a shuffle used to pick the starting arrangement: not a proposal of the walk
            self.ctx.probe("move_that_was_not_a_proposal_ignored")
        if not self.hook_live() and self.draws_before_move == 0:
            # without the hook, draws are attributed by position (selection draw, move, acceptance draw): a move that
            # no WL draw precedes (a shuffle picking the start; an implementation that draws its single number per
            # step ahead of the move) leaves the next draw's role open
            raise Discard("no trace hook, and a move arrived without a WL draw before it: the role of the draws cannot be told from the RNG seam alone")
        if self.prop is not None:
            self.resolve_without_draw()
        if self.step is not None and not self.synced:
            # a new move: everything the previous step wrote or reported is complete (matters for implementations
            # that draw their random numbers ahead, where no draw separates two steps)
            self.sync_after_step()
        self.prop = {"kind": kind, "p": parent, "q": child, "ndraws": self.draws_before_move}
        self.draws_before_move = 0
        self.ctx.log.emit("move", mv=kind, p=parent, c=child)

    HOOK_FIELDS = {"proposal": ("idx_old", "idx_new", "acceptProb", "skip", "f", "kold", "knew"), "booked": ("idx", "skip", "g", "H", "cur"),
                   "flatcheck": ("flat", "f", "Hlocal")}

    def on_hook(self, kind, fields):
        if any(k not in fields for k in self.HOOK_FIELDS.get(kind, ())):
            raise Discard("the trace hook of this tree reports other fields than the harness knows (%s: %s)" % (kind, sorted(fields)))
        self.hook_seen = True
        self.pending_hook[kind] = dict(fields)
        if kind == "proposal" and not self.plan.get("no_hook") and "parent" in fields and "child" in fields:
            # the record names the arrangement the step starts from and the one proposed: it defines the proposal
            # (a move made through another method than the four wrapped ones is seen only here)
            pq = (str(fields["parent"]), str(fields["child"]))
            if self.prop is None or (self.prop["p"], self.prop["q"]) != pq:
                if self.step is not None and not self.synced and self.prop is None:
                    self.sync_after_step_keeping("proposal")
                self.ctx.probe("proposal_taken_from_the_hook_record")
                self.prop = {"kind": (self.prop or {}).get("kind", "other_move"), "p": pq[0], "q": pq[1], "ndraws": self.draws_before_move}
                self.draws_before_move = 0
            if self.early is not None:
                # the acceptance number had been drawn before the probability was reported
                e, self.early = self.early, None
                self.ctx.probe("acceptance_number_drawn_before_the_proposal_record")
                kind_, p, q, idx_new, inr, P = self.prepare()
                self.decide(kind_, p, q, idx_new, inr, P, e["u"], e.get("cls", "early_draw"))
                return
        if kind == "booked" and self.prop is not None:
            self.resolve_without_draw()

    def hook_live(self):
        return self.use_hook or (self.hook_capable and not self.started)

    def wl_random(self, who):
        if self.early is not None:
            # a second WL draw with neither a hook record nor a move in between: the held draw was a selection
            # draw, and the move before it was not a proposal of the walk
            self.early_was_selection()
        if self.prop is not None and "proposal" not in self.pending_hook and self.hook_live():
            # With a live hook every proposal of the walk is announced by a "proposal" record.  A WL draw that
            # follows a move before that record is either the acceptance number drawn early (the record follows) or
            # a selection draw after a move that was no proposal (e.g. a shuffle picking the start; a move follows).
            # The value is handed out now; what it was is settled by the next event.
            u, cls = self.rnd.random(), "early_uniform"
            try:
                m = self.model
                kq = self.kappa(self.prop["q"])
                if self.started and m.idx is not None and -1e-12 <= kq <= 1 + 1e-9:
                    i_new, edge = m.bin(kq)
                    if edge >= 1e-9:
                        u, cls = self.choose_u(m.accept_prob(i_new), m.in_range(i_new))
            except Exception:
                pass
            u = min(max(u, 0.0), ONE_MINUS)
            self.early = {"u": u, "cls": "early_" + cls}
            return u
        if self.prop is None:
            return self.draw_r()
        return self.draw_u()

    def early_was_selection(self):
        self.early = None
        self.prop = None
        self.draws_before_move += 1
        self.ctx.probe("move_that_was_not_a_proposal_ignored")

    # --- r draw: start of a step
    def draw_r(self):
        m = self.model
        self.draws_before_move += 1
        if self.draws_before_move > 1 and not (self.use_hook or (self.hook_capable and not self.started)):
            raise Discard("more than one WL draw before the move: the RNG seam cannot tell which of them decides acceptance")
        if self.step is not None and not self.synced:
            self.sync_after_step()
        if m.steps >= self.plan["step_cap"]:
            raise StepCap()
        self.in_step = True
        self.inflight_rows = 0
        if self.follow_mode:
            # this implementation decides with numbers the seam does not see; should it use a tape number for
            # acceptance after all, the frequency test needs that number to be uniform
            return min(max(self.rnd.random(), 0.0), ONE_MINUS)
        w = self.plan.get("move_weights") or [1, 1, 1, 1]
        tot = float(sum(w)) or 1.0
        x = self.rnd.random() * tot
        k = 0
        while k < 3 and x >= w[k]:
            x -= w[k]
            k += 1
        lo = (0.0, P_FS, P_FS + P_SC, P_FS + P_SC + P_SB)[k]
        hi = (P_FS, P_FS + P_SC, P_FS + P_SC + P_SB, 1.0)[k]
        y = self.rnd.random()
        if y < 0.05:
            r = lo                                   # band edge (legal value)
        elif y < 0.08:
            r = min(ONE_MINUS, max(lo, hi - 1e-12))
        else:
            r = lo + (hi - lo) * self.rnd.random()
        r = min(max(r, 0.0), ONE_MINUS)
        return r

    # --- the proposal is known: check it against the model and compute the acceptance probability
    def prepare(self):
        m = self.model
        kind, p, q = self.prop["kind"], self.prop["p"], self.prop["q"]
        hp = self.pending_hook.pop("proposal", None)
        if hp is not None and not self.started:
            self.use_hook = not self.plan.get("no_hook")
        if not self.use_hook:
            hp = None
            if self.prop.get("ndraws", 0) > 1:
                raise Discard("more than one WL draw before the move: the RNG seam cannot tell which of them decides acceptance")
        if m.done:
            # a proposal is being decided although f is at most the threshold (a stray draw alone is not a step)
            self.viol("continued_past_convergence", "stop", "f=%r is at most the threshold %r but another step was started" % (m.f, m.conv))
        # I1: rearrangements of the input
        if sorted(p) != self.input_sorted:
            self.viol("not_a_rearrangement", "visited_not_rearrangement", "current sequence %r is not a rearrangement of the input %r" % (p, self.plan["seq"]))
        if sorted(q) != self.input_sorted:
            self.viol("not_a_rearrangement", "proposal_not_rearrangement", "%s proposed %r, not a rearrangement of the input %r" % (kind, q, self.plan["seq"]))
        if not self.started:
            self.started = True
            m.cur = p
            m.idx = self.bin_of(p, hp["idx_old"] if hp else None)
            kp = self.kappa(p)
            if (kp > 1 + 1e-9 or kp < -1e-12) and (hp is None or hp["idx_old"] != m.idx):
                raise Discard("the walk starts from a kappa outside [0,1], which has no bin in the partition, and the implementation does not read it as the top bin")
            if not m.in_range(m.idx):
                self.ctx.probe("start_outside_range")
            self.ctx.probe("hook_assisted" if self.use_hook else "seam_only")
        # I2: the sequence the step starts from is the one the model holds
        if p != m.cur:
            last = self.step
            self.viol("wrong_move_decision", "decision:" + (last["class"] if last else "start"),
                      "the sampler now sits on %r but the WL rule leaves it on %r (previous step: %s)" % (p, m.cur, cjson(last) if last else "none"))
        idx_new = self.bin_of(q, hp["idx_new"] if hp else None)
        inr = m.in_range(idx_new)
        no_bin = False
        kq = self.kappa(q)
        off_scale = kq > 1 + 1e-9 or kq < -1e-12
        if off_scale and inr:
            # a kappa outside [0,1] (the delta-max heuristic underestimates for some compositions) has no bin in
            # the partition of [0,1]: an implementation may take the nearest (top) bin or treat the proposal as
            # outside every range; both readings keep the statement, so the implementation's reading is followed
            if hp is None:
                raise Discard("a proposal with kappa outside [0,1] has no bin in the partition; without the hook the implementation's reading (top bin, or outside the range) is not known")
            if bool(hp["skip"]):
                no_bin, inr = True, False
                self.ctx.probe("kappa_above_one_read_as_outside")
        P = 0.0 if no_bin else m.accept_prob(idx_new)
        if hp is not None:
            if hp["idx_old"] != m.idx or (hp["idx_new"] != idx_new and not off_scale):
                self.viol("wrong_bin", "bin", "implementation bins (old %d, new %d), nearest-centre bins of kappa(%s)=%r and kappa(%s)=%r are (%d, %d) with M=%d" % (
                    hp["idx_old"], hp["idx_new"], p, self.kappa(p), q, self.kappa(q), m.idx, idx_new, m.M))
            if not feq(hp["knew"], self.kappa(q), 1e-9) or not feq(hp["kold"], self.kappa(p), 1e-9):
                self.viol("wrong_kappa", "kappa", "implementation kappa (old %r, new %r) differs from a fresh object's (%r, %r)" % (hp["kold"], hp["knew"], self.kappa(p), self.kappa(q)))
            if bool(hp["skip"]) != (not inr):
                self.viol("range_rule", "range", "proposal bin %d treated as %s the range [%d,%d]" % (idx_new, "outside" if hp["skip"] else "inside", m.a, m.b - 1))
            if not feq(hp["acceptProb"], P, 1e-9, 1e-300):
                self.viol("wrong_acceptance_probability", "accept_prob", "acceptance probability %r, WL rule min(1, exp(g_old - g_new)) = %r (g_old=%r, g_new=%r, in range: %s)" % (
                    hp["acceptProb"], P, m.g[m.idx], m.g[idx_new], inr))
            if not feq(hp["f"], m.f, 1e-9):
                self.viol("wrong_f", "f", "modification factor %r, model %r" % (hp["f"], m.f))
        return kind, p, q, idx_new, inr, P

    def resolve_without_draw(self):
        """the implementation went on without asking for an acceptance draw: legitimate only when the
        probability is 0 or 1, where the decision does not depend on the draw"""
        kind, p, q, idx_new, inr, P = self.prepare()
        if 0.0 < P < 1.0:
            hb = self.pending_hook.get("booked") if self.use_hook else None
            if hb is None or "cur" not in hb or self.prop.get("ndraws", 0) > 1 or not entropy.used():
                # (numbers drawn from the tape ahead of the move cannot be told apart from selection draws, and the
                # tape's selection values are not uniform: such runs stay undecided)
                raise Discard("the step was decided without an acceptance draw although 0 < P < 1 (cannot be followed through the RNG seam)")
            # the acceptance number came from a generator outside the seam: the probability was checked against the
            # rule; which way the coin fell is taken from the hook's record, and the frequencies are tested below
            self.ctx.probe("decision_followed_from_hook")
            first = not self.follow_mode
            self.follow_mode = True          # from here on the tape hands out plain uniform numbers (see draw_r)
            if q != p and first:
                took = hb["cur"] == q        # the number behind this decision may have been one of the tape's banded values
            elif q != p:
                took = hb["cur"] == q
                self.fol_n += 1
                self.fol_S += (1.0 if took else 0.0) - P
                self.fol_V += P * (1.0 - P)
                self.check_followed()
            else:
                took = True
            self.decide(kind, p, q, idx_new, inr, P, P / 2 if took else (1 + P) / 2, "unattributed")
            return
        self.ctx.probe("step_decided_without_draw")
        self.decide(kind, p, q, idx_new, inr, P, 0.0 if P >= 1.0 else ONE_MINUS, "no_draw")

    def check_followed(self):
        """Decisions that were followed rather than predicted must still be draws with the probabilities the rule
        gives.  Bernstein's inequality: for independent Bernoulli(P_i) decisions, |sum(took_i - P_i)| >= t has
        probability at most 2 exp(-t^2 / (2 (V + t/3))), V = sum P_i (1 - P_i) (Freedman's form covers the P_i depending
        on the past).  The alarm needs the exponent to exceed 40 (bound 8e-18): that leaves room for the test being
        looked at after every step and for V being random (union over some 10^5 (step, variance level) pairs), so a
        correct implementation meets it less than once in 10^12 runs."""
        t = abs(self.fol_S)
        if self.fol_n >= 20 and t * t / (2.0 * (self.fol_V + t / 3.0)) > 40.0:
            self.viol("wrong_acceptance_frequency", "accept_freq", "over %d steps decided with numbers from outside the seam the proposals were accepted %s often than "
                      "min(1, exp(g_old - g_new)) allows: sum(accepted - P) = %.1f with variance %.1f (Bernstein bound < 1e-12)" % (
                          self.fol_n, "more" if self.fol_S > 0 else "less", self.fol_S, self.fol_V))

    def choose_u(self, P, inr):
        r = self.rnd
        cls = "uniform"
        if self.plan.get("accept_policy") == "adversarial" and r.random() < 0.8:
            if not inr:
                u, cls = 0.0, "outside_u0"
                self.ctx.probe("proposal_outside_range_with_u_zero")
            elif P < 1e-300:
                u, cls = r.random(), "uniform_tinyP"
            elif P < 1.0:
                c = r.randrange(5)
                if c == 0 and P * (1 - 1e-6) < P:
                    u, cls = P * (1 - 1e-6), "just_below_P"
                    self.ctx.probe("u_just_below_P")
                elif c == 1 and P * (1 + 1e-6) < 1.0:
                    u, cls = P * (1 + 1e-6), "just_above_P"
                    self.ctx.probe("u_just_above_P")
                elif c == 2:
                    u, cls = P / 2, "half_P"
                elif c == 3:
                    u, cls = (1 + P) / 2, "above_P"
                elif P >= 1e-300:
                    u, cls = 0.0, "zero"
                else:
                    u, cls = r.random(), "uniform_tinyP"     # exp(d) underflows: u = 0 would separate exp-space from log-space implementations of the same rule
            else:
                u, cls = r.choice(((0.0, "zero_P1"), (ONE_MINUS, "max_P1"), (0.5, "half_P1")))
        else:
            u = r.random()
        return u, cls

    # --- acceptance draw: choose u, then decide
    def draw_u(self):
        kind, p, q, idx_new, inr, P = self.prepare()
        u, cls = self.choose_u(P, inr)
        u = min(max(u, 0.0), ONE_MINUS)
        self.decide(kind, p, q, idx_new, inr, P, u, cls)
        return u

    def decide(self, kind, p, q, idx_new, inr, P, u, cls):
        m = self.model
        if self.step is not None and not self.synced:
            self.sync_after_step()            # the previous step's records were never compared (no draw since)
        self.prop = None
        self.synced = False
        accepted = u < P
        if accepted:
            self.accepted_n += 1
            if P < 1.0:
                self.ctx.probe("accepted_uphill")
            if idx_new == m.idx:
                self.ctx.probe("same_bin_accept")
        else:
            self.rejected_n += 1
            self.ctx.probe("rejected_step")
        same_bin = idx_new == m.idx
        was_in = m.in_range(m.idx)
        info = m.book(accepted, q, idx_new, not inr)
        self.bins_visited.add(m.idx)
        self.step = {"kind": kind, "p": p, "q": q, "idx_new": idx_new, "in_range": inr, "P": P, "u": u, "accepted": accepted, "class": cls,
                     "booked_idx": m.idx, "g": m.g[m.idx], "H": m.H[m.idx], "f": m.f, "counted": inr, "flat_info": info}
        self.ctx.log.emit("step", n=m.steps, inr=inr, P=repr(P), u=repr(u), acc=accepted, idx=m.idx, cls=cls)
        self.ctx.count("wl_steps")
        if info is not None:
            self.inflight_rows = 3
            if not info["ambiguous"]:
                m.apply_flat(info)
                self.ctx.probe("flatcheck_flat" if info["flat"] else "flatcheck_not_flat")
                if info.get("tie"):
                    self.ctx.probe("flatcheck_exact_tie")
                self.step["flat_applied"] = True
                if m.niter >= 3:
                    self.ctx.probe("iteration_ge_3")
        self.ctx.sig(was_in, inr, P < 1.0, accepted, same_bin, (info or {}).get("flat", "-"), min(m.niter, 5), m.M, m.a, m.b)

    # --- after the step's effects: compare hook records and log rows
    def sync_after_step(self, final=False):
        m = self.model
        st = self.step
        self.in_step = False
        self.synced = True
        hb = self.pending_hook.pop("booked", None) if self.use_hook else None
        hf = self.pending_hook.pop("flatcheck", None) if self.use_hook else None
        self.pending_hook.clear()
        if st is not None:
            info = st.get("flat_info")
            if info is not None and not st.get("flat_applied"):
                # ambiguity window: follow the implementation's decision
                if hf is not None:
                    info["flat"] = bool(hf["flat"])
                else:
                    info["flat"] = self.observed_glog_growth()
                m.apply_flat(info)
                st["flat_applied"] = True
            if hb is not None:
                if hb["idx"] != st["booked_idx"]:
                    self.viol("wrong_bookkeeping", "booked_bin", "g/H were updated for bin %d, the occupied bin after the step is %d" % (hb["idx"], st["booked_idx"]))
                if bool(hb["skip"]) == st["counted"]:
                    self.viol("wrong_bookkeeping", "counted", "step %s counted by the implementation, proposal in range: %s" % ("not" if hb["skip"] else "", st["counted"]))
                if not feq(hb["g"], st["g"], 1e-9) or hb["H"] != st["H"]:
                    self.viol("wrong_bookkeeping", "g_H", "after the step g[%d]=%r H[%d]=%r, WL rule gives g=%r H=%r (counted: %s, ln f=%r)" % (
                        hb["idx"], hb["g"], hb["idx"], hb["H"], st["g"], st["H"], st["counted"], math.log(st["f"])))
                if hb["cur"] != m.cur:
                    self.viol("wrong_move_decision", "decision:" + st["class"], "after the step the sampler sits on %r, the WL rule on %r (P=%r, u=%r)" % (hb["cur"], m.cur, st["P"], st["u"]))
            if info is not None and hf is not None and not info["ambiguous"]:
                if bool(hf["flat"]) != bool(info["flat"]):
                    self.viol("wrong_flatness", "flat", "flat check with local histogram %r (criterion %r): implementation says %s, rule says %s" % (
                        info["hlocal"], m.flatcrit, hf["flat"], info["flat"]))
                if [int(x) for x in hf["Hlocal"]] != info["hlocal"]:
                    self.viol("wrong_bookkeeping", "hlocal", "local histogram at the flat check %r, model %r" % (hf["Hlocal"], info["hlocal"]))
                if not feq(hf["f"], m.f, 1e-9):
                    self.viol("wrong_f", "f_schedule", "f after the flat check is %r, rule (square root exactly when flat) gives %r" % (hf["f"], m.f))
            if m.pending_tie:
                if hf is None:
                    raise Discard("f equals the threshold to within rounding and no hook record tells the implementation's f")
                m.f = float(hf["f"])
                m.done = not (m.f > m.conv)      # the statement: stop when f is at most the threshold
                if not m.done:
                    m.iter_headers += 1
                else:
                    self.ctx.probe("stopped_at_f_equal_threshold")
                m.pending_tie = False
            if info is None and hf is not None:
                self.viol("wrong_flatness", "flat_schedule", "a flat check ran at step %d, not a multiple of the period %d" % (m.steps, m.flatchk))
            if info is not None and self.use_hook and hf is None and not final:
                self.viol("wrong_flatness", "flat_schedule", "no flat check ran at step %d although the period is %d" % (m.steps, m.flatchk))
        # while a proposal is still undecided in the model the implementation may already have written that
        # step's rows (it did not need a draw): rows beyond the model's are then compared at the next sync
        self.check_disk(strict=False, allow_extra=self.prop is not None)
        self.step = None if final else st

    def sync_after_step_keeping(self, kind):
        keep = self.pending_hook.get(kind)
        self.sync_after_step()
        if keep is not None:
            self.pending_hook[kind] = keep

    def observed_glog_growth(self):
        rows = [r for r in self.read_new_rows("glog.txt", peek=True) if numeric(r)]     # captions and headers are not growth
        return len(rows) > 0

    # --- disk vs model
    def read_new_rows(self, name, peek=False):
        path = self.outdir + "/" + name
        data = self.fs.read_file(path)
        off = self.file_off[name]
        if len(data) < off:
            off = 0
            self.disk_rows[name] = []
        chunk = data[off:]
        cut = chunk.rfind(b"\n")
        if cut < 0:
            return []
        text = chunk[:cut + 1].decode("utf-8", "replace")
        rows = parse_rows(text)
        if not peek:
            self.file_off[name] = off + cut + 1
            self.disk_rows[name].extend(rows)
        return rows

    def check_disk(self, strict, allow_extra=False):
        """rows on the simulated disk must be a prefix of the model's rows (never wrong data);
        strict=True (normal return): they must be complete.  Once an injected I/O error has fired in this
        run, what an implementation leaves on the disk while it copes with the error (retries, partial
        rows) is outside the statement: the incremental comparison is suspended, and only a run that still
        returns normally is held to the complete comparison, from scratch."""
        m = self.model
        if self.fs.errors_fired > self.fired0 or self.fs.crashed:
            if not strict:
                return
            for name in FILES:
                self.file_off[name] = 0
                self.disk_rows[name] = []
            self._cmp_hlog = 0
            self._cmp_glog = 0
        for name in ("hlog.txt", "glog.txt"):
            self.read_new_rows(name)
        # hlog: numeric rows = [check#, H local...]; header rows "iter k:"
        hrows = [r for r in self.disk_rows["hlog.txt"] if numeric(r)]
        # how often the histogram is logged is not said: every flat check (as today) or only the final histogram of
        # each iteration (all that "ln f times the final histogram of that iteration" needs) are both accepted
        finals = [m.rows["hlog"][k_ - 1] for k_ in sorted(m.iter_end_rows)]
        if getattr(self, "hlog_final_only", False):
            self.cmp_rows("hlog", hrows, finals, strict, exact=True, allow_extra=allow_extra)
        else:
            try:
                self.cmp_rows("hlog", hrows, m.rows["hlog"], strict, exact=True, allow_extra=allow_extra)
            except Violation as v:
                save = getattr(self, "_cmp_hlog", 0)
                self._cmp_hlog = 0
                try:
                    self.cmp_rows("hlog", hrows, finals, strict, exact=True, allow_extra=allow_extra)
                except Violation:
                    self._cmp_hlog = save
                    raise v
                self.hlog_final_only = True
                self.ctx.probe("hlog_holds_final_histograms_only")
        self.check_captions(final=False, allow_extra=allow_extra)
        grows = [r for r in self.disk_rows["glog.txt"] if numeric(r)]
        self.cmp_rows("glog", grows, m.rows["glog"], strict, exact=False, allow_extra=allow_extra)

    def check_captions(self, final, allow_extra=False):
        """"iter k:" captions are not part of the statement: whether one is written ahead of an iteration or after
        its flat check, and whether the last one appears, is the implementation's business.  What a histogram log
        cannot do and still agree with the bookkeeping is announce the same iteration twice, or more iterations
        than one beyond those that were run."""
        m = self.model
        nums = []
        for r in self.disk_rows["hlog.txt"]:
            if len(r) == 2 and r[0][0].lower() == "iter":
                mm = re.match(r"^(\d+)", r[1][0])
                nums.append(int(mm.group(1)) if mm else None)
        if not nums:
            if final:
                self.ctx.probe("hlog_without_iteration_headers")
            return
        known = [n for n in nums if n is not None]
        if len(set(known)) != len(known):
            self.viol("log_disagrees", "hlog_iter_headers", "hlog announces an iteration twice (captions %r)" % (nums,))
        if len(nums) > m.iter_headers + 1 and not allow_extra:
            self.viol("log_disagrees", "hlog_iter_headers", "hlog announces %d iterations, the bookkeeping has started %d" % (len(nums), m.iter_headers))

    def cmp_rows(self, name, disk, model, strict, exact, allow_extra=False):
        if len(disk) > len(model) and allow_extra:
            disk = disk[:len(model)]
        if len(disk) > len(model):
            self.viol("log_disagrees", name + "_extra_rows", "%s holds %d data rows, the bookkeeping implies %d (last extra row: %r)" % (
                name, len(disk), len(model), [t for t, _ in disk[len(model)]]))
        start = getattr(self, "_cmp_" + name, 0)
        for i in range(start, len(disk)):
            d, w = disk[i], model[i]
            if len(d) != len(w):
                self.viol("log_disagrees", name + "_row_shape", "%s row %d has %d columns, expected %d (%r)" % (name, i + 1, len(d), len(w), [t for t, _ in d]))
            for j, ((tok, v), x) in enumerate(zip(d, w)):
                if j == 0:
                    continue                      # running check / iteration counter: numbering is not part of the statement
                tol = 0.0 if exact else tok_tol(tok) + 1e-9 * abs(x)
                if not abs(v - x) <= tol:
                    self.viol("log_disagrees", name + "_value", "%s row %d column %d reads %s, bookkeeping gives %r" % (name, i + 1, j, tok, x))
        setattr(self, "_cmp_" + name, len(disk))
        if strict and len(disk) != len(model):
            self.viol("log_disagrees", name + "_missing_rows", "%s holds %d data rows after a normal return, the bookkeeping implies %d" % (name, len(disk), len(model)))

    # --- end of run
    def finish_normal(self, ret):
        import numpy as np
        m = self.model
        if self.early is not None:
            self.early_was_selection()
        if self.prop is not None and "proposal" not in self.pending_hook and self.hook_live():
            self.prop = None                 # a move that was never announced as a proposal (e.g. one that picked the start of a run without steps)
            self.ctx.probe("move_that_was_not_a_proposal_ignored")
        if self.prop is not None:
            self.resolve_without_draw()
        self.sync_after_step(final=True)
        if not m.done:
            self.viol("stopped_early", "stop", "run() returned after %d steps with f=%r still above the threshold %r" % (m.steps, m.f, m.conv))
        self.check_disk(strict=True)
        cen = m.centres()
        arr = np.asarray(ret, dtype=float)
        if arr.shape != (2, m.M):
            self.viol("output_disagrees", "return_shape", "returned array has shape %r, expected (2, %d)" % (arr.shape, m.M))
        for i in range(m.M):
            if not feq(arr[0][i], cen[i], 1e-12):
                self.viol("output_disagrees", "return_centres", "returned bin centre %d is %r, midpoint of the equal partition is %r" % (i, arr[0][i], cen[i]))
            if not feq(arr[1][i], m.g[i], 1e-9):
                self.viol("output_disagrees", "return_g", "returned g[%d]=%r, bookkeeping gives %r" % (i, arr[1][i], m.g[i]))
        self.check_captions(final=True)
        self.check_static_files(strict=True)
        self.check_increments()

    def text(self, name):
        return self.fs.read_file(self.outdir + "/" + name).decode("utf-8", "replace")

    def check_static_files(self, strict):
        m = self.model
        cen = m.centres()
        # DOS files
        for name, idxs in (("DOS.txt", range(m.M)), ("DOS_local.txt", range(m.a, m.b))):
            present = self.fs.exists(self.outdir + "/" + name)
            if not present:
                if strict:
                    self.viol("output_disagrees", name + "_missing", "%s was not written" % name)
                continue
            rows = [r for r in parse_rows(self.complete(self.text(name), strict)) if numeric(r)]
            want = [[cen[i], m.g[i]] for i in idxs]
            if len(rows) > len(want) or (strict and len(rows) != len(want)):
                self.viol("output_disagrees", name + "_rows", "%s has %d rows, expected %d" % (name, len(rows), len(want)))
            if strict:
                for r, w in zip(rows, want):
                    if len(r) != 2 or not abs(r[0][1] - w[0]) <= tok_tol(r[0][0]) + 1e-12 or not abs(r[1][1] - w[1]) <= tok_tol(r[1][0]) + 1e-9 * abs(w[1]):
                        self.viol("output_disagrees", name + "_value", "%s row %r, bookkeeping gives centre %r log-density %r" % (name, [t for t, _ in r], w[0], w[1]))
        # histogram_bins: all centres, then the centres of the range
        rows = [r for r in parse_rows(self.complete(self.text("histogram_bins.txt"), strict)) if numeric(r)]
        want = cen + cen[m.a:m.b]
        if strict and len(rows) == len(cen):
            want = cen                     # all centres, without the section that repeats those of the range
        if len(rows) > len(want) or (strict and len(rows) != len(want)):
            self.viol("output_disagrees", "histogram_bins_rows", "histogram_bins.txt has %d rows, expected %d centres + %d centres of the range" % (len(rows), m.M, m.b - m.a))
        for r, w in zip(rows, want):
            if len(r) != 1 or not abs(r[0][1] - w) <= tok_tol(r[0][0]) + 1e-12:
                self.viol("output_disagrees", "histogram_bins_value", "histogram_bins.txt row %r, expected centre %r" % ([t for t, _ in r], w))
        # seqlog: every row carries a rearrangement of the input and its true kappa
        for r in parse_rows(self.complete(self.text("seqlog.txt"), strict)):
            if len(r) == 2 and r[0][1] is not None and r[1][1] is None:
                s = r[1][0]
                if sorted(s) != self.input_sorted:
                    self.viol("log_disagrees", "seqlog_sequence", "seqlog row %r is not a rearrangement of the input" % s)
                if not abs(r[0][1] - self.kappa(s)) <= tok_tol(r[0][0]) + 1e-9:
                    self.viol("log_disagrees", "seqlog_kappa", "seqlog gives kappa %s for %s, its kappa is %r" % (r[0][0], s, self.kappa(s)))

    @staticmethod
    def complete(text, strict):
        if strict:
            return text
        cut = text.rfind("\n")
        return text[:cut + 1] if cut >= 0 else ""

    def check_increments(self):
        """O4, from the logs alone: per iteration, on the bins of the range, the g increment equals
        ln f of that iteration times the last histogram row of that iteration."""
        m = self.model
        hl = self.disk_rows["hlog.txt"]
        grows = [r for r in self.disk_rows["glog.txt"] if numeric(r)]
        # split hlog numeric rows by iteration headers
        per_iter = []
        cur = None
        if any(len(r) == 2 and r[0][0].lower() == "iter" for r in hl):
            for r in hl:
                if len(r) == 2 and r[0][0].lower() == "iter":
                    cur = []
                    per_iter.append(cur)
                elif numeric(r) and cur is not None:
                    cur.append(r)
        else:
            # no iteration captions in the log: the rows are split where the bookkeeping says an iteration ended
            rows = [r for r in hl if numeric(r)]
            ends = [k for k, row in enumerate(m.rows["hlog"]) if k + 1 in m.iter_end_rows]
            start = 0
            if getattr(self, "hlog_final_only", False):
                per_iter = [[r] for r in rows]
                ends = []
            for e in ends:
                per_iter.append(rows[start:e + 1])
                start = e + 1
        prev = [0.0] * m.M
        for k, gr in enumerate(grows):
            gvals = [v for _, v in gr[1:]]
            if len(gvals) != m.M or k >= len(per_iter) or not per_iter[k]:
                self.viol("log_disagrees", "increments_shape", "glog row %d cannot be matched with the histogram rows of iteration %d" % (k + 1, k + 1))
            last = [v for _, v in per_iter[k][-1][1:]]
            lnf = 1.0 / (2 ** k)
            for j, i in enumerate(range(m.a, m.b)):
                inc = gvals[i] - prev[i]
                tol = 2 * tok_tol(gr[1 + i][0]) + 1e-9 * abs(gvals[i])
                if not abs(inc - lnf * last[j]) <= tol:
                    self.viol("log_disagrees", "increments", "iteration %d bin %d: g grew by %r in glog, ln f x final histogram = %r x %r" % (k + 1, i, inc, lnf, last[j]))
            prev = gvals

    def finish_failed(self, why):
        """run() did not return: only prefix-consistency of what is on the simulated disk"""
        m = self.model
        st = self.step
        if st is not None and st.get("flat_info") is not None and not st.get("flat_applied"):
            st["flat_info"]["flat"] = self.observed_glog_growth()
            m.apply_flat(st["flat_info"])
            st["flat_applied"] = True
        if self.fs.errors_fired > self.fired0 or self.fs.crashed or why in ("oserror", "crash"):
            self.ctx.probe("failed_run_disk_not_asserted")
            return
        self.check_disk(strict=False)
        self.check_static_files(strict=False)


# ------------------------------------------------------------------ execution
def execute(plan, ctx):
    import localcider.backend.wang_landau as wl
    import localcider.backend.sequence as seqmod
    import localcider.sequencePermutants as permmod
    import localcider.sequenceParameters as spmod
    from localcider.backend.sequence import Sequence
    try:
        from localcider.backend.localciderExceptions import SequenceException
    except Exception:
        class SequenceException(Exception):
            pass
    envmode.apply(plan.get("env"), ctx)
    spmod.print = _quiet_print
    wl.print = _quiet_print
    clock = SimClock(ctx, ctx.streams.stream("clock"), plan.get("clock_mode", "normal"))
    wl.t = clock
    wl.time = clock
    seqmod.time = clock
    import os
    fs = SimFS(ctx, prefix="dst_c18_")
    fs.known_names = set(FILES)
    wl.open = fs.open
    # the log directory is real (so that os.path.isdir / makedirs / os.replace / fsync on it behave as on a
    # real disk); every handle opened through the seam is fault-injected and the random directory name is never logged
    OUTDIR = fs.root + "/wl"
    os.makedirs(OUTDIR)
    try:
        return _execute(plan, ctx, fs, wl, seqmod, permmod, Sequence, SequenceException, clock, OUTDIR)
    finally:
        fs.cleanup()


def _execute(plan, ctx, fs, wl, seqmod, permmod, Sequence, SequenceException, clock, OUTDIR):
    import os
    cur = {"sim": None}
    move_driver = UniformDriver(ctx.streams.stream("move_tape"), bias=0.3 if plan.get("move_rng") == "biased" else 0.0, ctx=ctx)

    idle = ctx.streams.stream("wl_idle")

    class WLDriver(object):
        def random(self, who):
            if cur["sim"] is None:
                return idle.random()          # a machine outside the observed runs (the prelude)
            return cur["sim"].wl_random(who)

        def bits(self, who, k):
            return ctx.streams.stream("wl_bits").getrandbits(k)

        def below(self, who, n):
            return 0

    def move_factory():
        if plan.get("move_rng") == "mt":
            return MTRandom("move", ctx, 3000)
        return TapeRandom("move", ctx, move_driver, 3000)
    wl.rng = RngModule(lambda: TapeRandom("wl", ctx, WLDriver(), 10 ** 9))
    seqmod.rng = RngModule(move_factory)

    from localcider.sequenceParameters import SequenceParameters as _SP

    def seq_of(o):
        try:
            return _SP(SeqObj=o).get_sequence()       # through the API, not through attribute names
        except Exception:
            return str(o)

    # observation channel 2: class-level wrappers around the four moves
    def wrap(name):
        orig = getattr(Sequence, name)

        def w(self, *a, **k):
            if cur["sim"] is None or not cur.get("armed") or cur.get("depth"):
                return orig(self, *a, **k)        # outside run(), or a move called by another move
            cur["depth"] = 1
            try:
                parent = seq_of(self)
                out = orig(self, *a, **k)
            except Exception as e:
                cur["move_exc"] = e           # a move of the walk failed (e.g. the cluster move's refusal)
                raise
            finally:
                cur["depth"] = 0
            cur["sim"].on_move(name, parent, seq_of(out))
            return out
        setattr(Sequence, name, w)
    for name in ("full_shuffle", "swapRandChargeRes", "permute_block_swap", "permute_cluster_charges"):
        wrap(name)
    if hasattr(wl, "_VERIF_HOOK") and getattr(wl, "_VERIF_ENABLED", False) and not plan.get("no_hook"):
        wl._VERIF_HOOK = lambda kind, fields: cur["sim"] and cur["sim"].on_hook(kind, fields)

    cfg = plan["cfg"]
    M, a, b = cfg["M"], cfg["a"], cfg["b"]
    if (a, b) != (0, M):
        ctx.probe("partial_range")
    nruns = 2 if plan.get("restart") else 1
    fault = plan.get("fault", {"kind": "none"})
    first_failed = False
    machine_box = [None]
    if plan.get("noise") is not None:
        from ..noise import noise_prelude
        noise_prelude(ctx, plan["noise"])
    pre = plan.get("prelude")
    if pre:
        ctx.probe("prelude_on_related_sequence")
        rel = Sequence(pre["seq"])
        if pre["how"] == "kappa":
            rel.kappa()
        elif pre["how"] == "machine":
            os.makedirs(OUTDIR + "_prelude", exist_ok=True)
            try:
                wl.WangLandauMachine(rel, OUTDIR + "_prelude", set(), 2, 0.0, 1.0, 5, 0.5, math.exp(2.0)).run()
            except (Violation, Discard, Budget, SimCrash, DrawCap):
                raise
            except Exception:
                ctx.probe("prelude_machine_refused")
        else:
            rel.deltaMax(True)
        ctx.log.emit("prelude", seq=pre["seq"], how=pre["how"])
    for run_no in range(nruns):
        sim = WLSim(plan, ctx, fs, wl, seqmod, Sequence, run_no)
        cur["sim"] = sim
        cur["move_exc"] = None
        fired0 = fs.errors_fired
        fs.faults = []
        fs.set_capacity(None)
        fs.open_faults = {}
        inject = fault["kind"] != "none" and run_no == 0
        if inject:
            base = fs.nevents
            if fault["kind"] == "eio":
                fs.faults = [{"at": base + fault["at"], "kind": "eio"}]
            elif fault["kind"] == "crash":
                fs.faults = [{"at": base + fault["at"], "kind": "crash", "torn": fault.get("torn", 0)}]
            elif fault["kind"] == "enospc":
                fs.set_capacity(fault["bytes"])
            elif fault["kind"] == "eacces":
                fs.open_faults[OUTDIR + "/" + fault["file"]] = "EACCES"
        if run_no == 1:
            ctx.probe("restart_into_dirty_dir")
            if first_failed:
                ctx.probe("restart_after_crash")
        # positional, in the documented order (keyword spellings are not part of the statement)
        wl_args = (b - a, a / float(M), b / float(M), cfg["flatchk"], cfg["flatcrit"], conv_of(cfg))
        outcome, ret, err = "returned", None, None
        try:
            if run_no == 1 and plan.get("restart") == "same_machine" and machine_box[0] is not None:
                ctx.probe("rerun_on_same_machine")
                machine = machine_box[0]
            elif plan["input"] == "permutants_api":
                ctx.probe("permutants_api")
                P = permmod.SequencePermutants(plan["seq"])
                P.initializeWangLandauParameters(OUTDIR, set(plan.get("frozen", [])), b - a, a / float(M), b / float(M),
                                                 cfg["flatchk"], cfg["flatcrit"], conv_of(cfg))
                machine = getattr(P, "WLM", None)
                if machine is None:
                    found = [v for v in vars(P).values() if isinstance(v, wl.WangLandauMachine)]
                    if not found:
                        raise Discard("SequencePermutants does not expose the machine it built")
                    machine = found[0]
                machine_box[0] = machine
            else:
                seq_in = plan["seq"]
                if plan["input"].startswith("object"):
                    seq_in = Sequence(plan["seq"])
                    if plan["input"] == "object_warm":
                        seq_in.kappa()
                        ctx.probe("warm_sequence_object")
                machine = wl.WangLandauMachine(seq_in, OUTDIR, set(plan.get("frozen", [])), *wl_args)
            machine_box[0] = machine
            cur["armed"] = True
            try:
                ret = machine.run()
            finally:
                cur["armed"] = False
        except StepCap:
            outcome = "step_cap"
        except SimCrash:
            outcome = "crash"
        except DrawCap:
            outcome = "move_cap"
        except Exception as e:
            chain, x = [], e
            while x is not None and len(chain) < 10:
                chain.append(x)
                x = x.__cause__ or x.__context__
            if cur.get("move_exc") is not None and any(c is cur["move_exc"] for c in chain) and not isinstance(e, OSError):
                outcome, err = "move_exception", e       # the run was aborted by a move that refused: not a statement about the WL rule
            elif isinstance(e, OSError):
                outcome, err = "oserror", e
            elif fs.errors_fired > fired0:
                outcome, err = "oserror", e          # an I/O error re-wrapped by the library is still a failed run
            elif run_no == 1 and not sim.started:
                outcome, err = "refused", e          # e.g. a machine that refuses to run twice or to overwrite a dirty directory
            elif not sim.started and (cfg["flatcrit"] <= 0.0 or cfg["flatcrit"] >= 1.0 or conv_of(cfg) >= math.e or conv_of(cfg) <= 1.0):
                # a flatness criterion of 0 or 1, or a threshold that f never exceeds / can never reach, are corners of
                # the parameter space: refusing them before the first step is an implementation's right
                raise Discard("boundary configuration refused before the first step: %r" % (e,))
            else:
                raise
        fired = fs.errors_fired - fired0
        crashed = fs.crashed
        ctx.log.emit("run_end", run=run_no, outcome=outcome, steps=sim.model.steps, fired=fired, err=type(err).__name__ if err else None)
        if fired:
            ctx.probe("fs_fault_fired")
            ctx.nontrivial = True
        if crashed:
            ctx.probe("crash_fired")
            ctx.nontrivial = True
        m = sim.model
        if m.counted >= 20 and sim.accepted_n and sim.rejected_n and m.nchecks:
            ctx.nontrivial = True
        if len(sim.bins_visited) >= 3:
            ctx.probe("multi_bin_visit")
        if outcome == "returned" and run_no == 1 and plan.get("restart") == "same_machine" and not sim.started and not sim.model.done:
            ctx.probe("second_run_on_same_machine_was_a_no_op")      # whether a finished machine runs again is not said
            cur["sim"] = None
            fs.restart()
            continue
        if outcome == "returned":
            if sim.model.steps == 0 and not sim.started:
                ctx.probe("run_with_no_steps")
            sim.finish_normal(ret)
            ctx.probe("converged")
            ctx.count("runs_converged")
        elif outcome == "refused":
            ctx.probe("second_run_refused")
        elif outcome == "oserror":
            if not fired and run_no == 1 and not sim.started:
                ctx.probe("second_run_refused")
                cur["sim"] = None
                fs.restart()
                continue
            if not fired:
                raise Violation("run_raised", "run_raised", "run %d raised %r although no I/O fault was injected" % (run_no, err))
            ctx.probe("oserror_propagated")
            sim.finish_failed("oserror")
            first_failed = True
        elif outcome == "crash":
            sim.finish_failed("crash")
            first_failed = True
        elif outcome == "step_cap":
            ctx.probe("step_cap_hit")
            ctx.count("budget_step_cap")
            sim.finish_failed("step_cap")
        elif outcome == "move_cap":
            ctx.count("budget_move_draw_cap")
            sim.finish_failed("move_cap")
        else:
            ctx.probe("aborted_by_move")
            ctx.count("aborted_by_move")
            sim.finish_failed("move_exception")
        cur["sim"] = None
        fs.restart()
    ctx.sim_seconds += clock.covered()
    ctx.count("clock_reads", clock.reads)


def shrink(plan, res):
    if plan.get("restart"):
        c = copy.deepcopy(plan); c["restart"] = False; yield c
    if plan.get("fault", {}).get("kind") != "none":
        c = copy.deepcopy(plan); c["fault"] = {"kind": "none"}; yield c
    for cap in (5, 20, 60, 200, 600):
        if cap < plan.get("step_cap", 10 ** 9):
            c = copy.deepcopy(plan); c["step_cap"] = cap; yield c
    for k, v in (("clock_mode", "normal"), ("move_rng", "tape"), ("input", "string"), ("accept_policy", "uniform")):
        if plan.get(k) != v:
            c = copy.deepcopy(plan); c[k] = v; yield c
    if plan.get("frozen"):
        c = copy.deepcopy(plan); c["frozen"] = []; yield c
    cfg = plan["cfg"]
    if (cfg["a"], cfg["b"]) != (0, cfg["M"]):
        c = copy.deepcopy(plan); c["cfg"]["a"], c["cfg"]["b"] = 0, cfg["M"]; yield c
    for M in (2, 3):
        if cfg["M"] > M:
            c = copy.deepcopy(plan); c["cfg"].update(M=M, a=0, b=M); yield c
    for fc in (1, 2, 5):
        if cfg["flatchk"] > fc:
            c = copy.deepcopy(plan); c["cfg"]["flatchk"] = fc; yield c
    if cfg["c"] < 0.6 and not cfg.get("conv_exact_k"):
        c = copy.deepcopy(plan); c["cfg"]["c"] = 0.6; yield c
    if plan.get("move_weights") != [1, 1, 0, 0]:
        c = copy.deepcopy(plan); c["move_weights"] = [1, 1, 0, 0]; yield c
    s = plan["seq"]
    for i in range(len(s)):
        if len(s) > 6:
            t = s[:i] + s[i + 1:]
            p = sum(ch in "KR" for ch in t); m = sum(ch in "DE" for ch in t)
            if max(p, m) >= 2 and min(p, m) + (len(t) - p - m) >= 2:
                c = copy.deepcopy(plan); c["seq"] = t; c["frozen"] = []; yield c

"""Minimisation by re-execution: a candidate plan is kept only if the same
violation class (kind + key) persists.  Parent-side wall clock only."""
import copy
import time

from .runner import exec_plan


def chunk_removals(n):
    """Index sets to delete from a list of length n: halves, quarters, ..., singles."""
    size = max(1, n // 2)
    seen = set()
    while size >= 1:
        for start in range(0, n, size):
            idx = tuple(range(start, min(n, start + size)))
            if idx and len(idx) < n + 1 and idx not in seen:
                seen.add(idx)
                yield idx
        if size == 1:
            break
        size = max(1, size // 2)


def list_candidates(plan, key):
    """Candidates obtained by deleting chunks of plan[key] (a list)."""
    items = plan.get(key) or []
    n = len(items)
    for idx in chunk_removals(n):
        s = set(idx)
        cand = copy.deepcopy(plan)
        cand[key] = [x for j, x in enumerate(items) if j not in s]
        yield cand


def minimise(prop, tier, plan, target, budget_s=120.0, max_exec=600, log=None):
    def same(r):
        return (r.get("outcome") == "VIOLATION" and r.get("kind") == target.get("kind")
                and r.get("key") == target.get("key"))

    t0 = time.time()
    nexec = 0
    cur = copy.deepcopy(plan)
    cur_res = target
    improved = True
    while improved:
        improved = False
        for cand in prop.shrink(cur, cur_res):
            if time.time() - t0 > budget_s or nexec >= max_exec:
                return cur, cur_res, nexec
            nexec += 1
            r = exec_plan(prop, tier, cand, want_tail=True)
            if same(r):
                cur, cur_res = cand, r
                improved = True
                break
    return cur, cur_res, nexec

"""Runner: zygote import of /repo, hermetic fork per run, lanes, aggregation,
minimisation, replay files and evidence.

Wall-clock is read here (parent only) for budgets and throughput figures and
never inside a run.
"""
import faulthandler
import json
import os
import select
import signal
import sys
import time
import traceback

from .kernel import Streams, Ctx, Violation, Budget, Discard, SimCrash, DrawCap
from . import entropy

VERIF = os.path.dirname(os.path.dirname(os.path.abspath(__file__)))


# ------------------------------------------------------------------ zygote
def load_repo(repo):
    repo = os.path.abspath(repo)
    os.environ["LOCALCIDER_VERIF"] = "1"
    if sys.path[0] != repo:
        sys.path.insert(0, repo)
    import warnings
    warnings.simplefilter("ignore")
    import localcider  # noqa
    import localcider.sequenceParameters  # noqa
    for extra in ("localcider.sequencePermutants", "localcider.backend.wang_landau"):
        try:                       # warm-up only: the checks that need these modules import them themselves
            __import__(extra)
        except Exception:
            pass
    got = os.path.dirname(os.path.abspath(localcider.__file__))
    if got != os.path.join(repo, "localcider"):
        raise RuntimeError("localcider imported from %s, not from %s" % (got, repo))
    return repo


def repo_identity(repo):
    import hashlib
    import subprocess
    try:
        head = subprocess.run(["git", "-C", repo, "rev-parse", "HEAD"], capture_output=True,
                              text=True, timeout=20).stdout.strip()
    except Exception:
        head = "?"
    h = hashlib.sha256()
    root = os.path.join(repo, "localcider")
    for d, dn, fn in sorted(os.walk(root)):
        dn.sort()
        if "tests" in d.split(os.sep) or "__pycache__" in d:
            continue
        for f in sorted(fn):
            if f.endswith(".py"):
                p = os.path.join(d, f)
                h.update(os.path.relpath(p, root).encode())
                with open(p, "rb") as fh:
                    h.update(fh.read())
    return {"head": head, "worktree_sha": h.hexdigest()[:16]}


# ------------------------------------------------------------------ one run
def load_known(prop_id):
    p = os.path.join(VERIF, "known_findings.json")
    try:
        with open(p) as fh:
            data = json.load(fh)
    except Exception:
        return []
    return [e for e in data.get("findings", []) if e.get("property") == prop_id]


class _DetNames(object):
    """tempfile's random name sequence, drawn from the run's own stream instead of OS entropy"""

    def __init__(self, rnd):
        self.rnd = rnd

    def __iter__(self):
        return self

    def __next__(self):
        return "".join(self.rnd.choice("abcdefghijklmnopqrstuvwxyz0123456789_") for _ in range(8))


def _seed_tempfile_names(streams):
    import tempfile
    tempfile._name_sequence = _DetNames(streams.stream("tempfile_names"))
    # other entropy a library might reach for without going through the seams: the `random` module's hidden
    # global instance and numpy's generators are seeded from the run's own stream, so runs stay replayable
    import random as _random
    _random.seed(streams.stream("global_random").getrandbits(64))
    try:
        import numpy as np
        np.random.seed(streams.stream("numpy_global").getrandbits(32))
        if not getattr(np.random.default_rng, "_dst_wrapped", False):
            _orig = np.random.default_rng
            _seedsrc = streams.stream("numpy_default_rng")

            def default_rng(seed=None, *a, **k):
                if seed is None:
                    seed = _seedsrc.getrandbits(64)
                return _orig(seed, *a, **k)
            default_rng._dst_wrapped = True
            np.random.default_rng = default_rng
    except Exception:
        pass


def run_one(prop, tier, verif_seed, job):
    """Executed in a freshly forked, pristine interpreter image."""
    res = {"tag": job.get("tag", "seed"), "i": job.get("i"), "name": job.get("name")}
    try:
        plan = job.get("plan")
        if plan is None:
            streams = Streams(prop.ID, verif_seed, job["i"])
            plan = prop.gen_plan(streams, tier)
        streams = Streams.from_run_seed(prop.ID, plan["run_seed"])
        ctx = Ctx(streams)
        _seed_tempfile_names(streams)
        entropy.install()
        entropy.arm()
        ctx.open_keys = set(e["key"] for e in load_known(prop.ID) if e.get("status") == "open")
        ctx.tier = tier
        res["outcome"] = "PASS"
        try:
            extra = prop.execute(plan, ctx)
            if extra:
                res["extra"] = extra
        except Violation as v:
            res.update(outcome="VIOLATION", kind=v.kind, key=v.key, msg=v.msg, event=ctx.log.n)
        except Budget as b:
            res.update(outcome="BUDGET", msg=str(b))
        except Discard as d:
            res.update(outcome="DISCARD", msg=str(d))
        except Exception as e:
            # an exception the harness did not expect: if it was raised inside the code under
            # test (innermost frame in localcider/) the call the property needs has failed
            tb = traceback.extract_tb(e.__traceback__)
            lib = os.sep + "localcider" + os.sep
            mine = os.sep + "dst" + os.sep
            owner = None
            for fr_ in tb:                       # the deepest frame that belongs to the library or to the harness decides
                if lib in fr_.filename and mine not in fr_.filename:
                    owner = ("lib", fr_)
                elif mine in fr_.filename:
                    owner = ("harness", fr_)
            if isinstance(e, Warning):
                # a warning turned into an error by the process configuration: not a statement about the library
                res.update(outcome="DISCARD", msg="a %s was raised as an error" % type(e).__name__)
            elif owner and owner[0] == "lib":
                fr = owner[1]
                res.update(outcome="VIOLATION", kind="unexpected_exception", key="unexpected_exception:%s:%s" % (type(e).__name__, fr.name),
                           msg="%s: %s raised in %s (%s:%d) where the harness expected the call to succeed" % (
                               type(e).__name__, e, fr.name, os.path.basename(fr.filename), fr.lineno), event=ctx.log.n)
            else:
                raise
        if entropy.used():
            ctx.probes["randomness_drawn_outside_the_seams"] = ctx.probes.get("randomness_drawn_outside_the_seams", 0) + 1
        res.update(digest=ctx.log.digest(), nevents=ctx.log.n, counters=ctx.counters, probes=ctx.probes,
                   faults=ctx.faults, sigs=sorted(ctx.sigs), known=ctx.known,
                   nontrivial=bool(ctx.nontrivial), sim_seconds=ctx.sim_seconds)
        if res["outcome"] == "VIOLATION" or job.get("want_tail"):
            res["tail"] = ctx.log.tail[-40:]
        if job.get("want_plan"):
            res["plan"] = plan
    except BaseException as e:  # harness problem, never a verdict
        res.update(outcome="HARNESS-ERROR", msg="%s: %s" % (type(e).__name__, e),
                   trace=traceback.format_exc()[-3000:])
    return res


def fork_and_run(prop, tier, verif_seed, job, timeout):
    r, w = os.pipe()
    sys.stdout.flush()
    sys.stderr.flush()
    pid = os.fork()
    if pid == 0:
        code = 0
        try:
            os.close(r)
            faulthandler.enable()
            faulthandler.dump_traceback_later(max(1.0, timeout - 0.5), exit=False)
            res = run_one(prop, tier, verif_seed, job)
            data = (json.dumps(res) + "\n").encode("utf-8")
            off = 0
            while off < len(data):
                off += os.write(w, data[off:off + 65536])
        except BaseException:
            code = 7
        finally:
            os._exit(code)
    os.close(w)
    buf = b""
    deadline = time.time() + timeout
    timed_out = False
    while True:
        left = deadline - time.time()
        if left <= 0:
            timed_out = True
            break
        rl, _, _ = select.select([r], [], [], min(left, 1.0))
        if rl:
            chunk = os.read(r, 1 << 16)
            if not chunk:
                break
            buf += chunk
    os.close(r)
    if timed_out:
        try:
            os.kill(pid, signal.SIGKILL)
        except OSError:
            pass
    _, status = os.waitpid(pid, 0)
    if timed_out:
        return {"tag": job.get("tag", "seed"), "i": job.get("i"), "name": job.get("name"),
                "outcome": "HARNESS-ERROR", "msg": "run timed out after %.0fs" % timeout}
    try:
        return json.loads(buf.decode("utf-8"))
    except Exception:
        return {"tag": job.get("tag", "seed"), "i": job.get("i"), "name": job.get("name"),
                "outcome": "HARNESS-ERROR", "msg": "no result from run (wait status %d)" % status}


# ------------------------------------------------------------------ lanes
def _lane_main(prop, tier, verif_seed, jobs, wfd, timeout):
    try:
        os.setpgid(0, 0)
    except OSError:
        pass
    for job in jobs:
        res = fork_and_run(prop, tier, verif_seed, job, timeout)
        data = (json.dumps(res) + "\n").encode("utf-8")
        off = 0
        while off < len(data):
            off += os.write(wfd, data[off:off + 65536])
    os._exit(0)


def run_jobs(prop, tier, verif_seed, jobs, nlanes, timeout, wall_cap, stop_pred=None):
    """Runs jobs over lanes; yields results as they arrive.  Returns via
    StopIteration nothing; sets run_jobs.truncated when the wall cap cut it."""
    nlanes = max(1, min(nlanes, len(jobs)))
    lanes = []
    buckets = [[] for _ in range(nlanes)]
    for n, job in enumerate(jobs):
        lane = job.get("lane")
        if lane is None:
            lane = n
        buckets[lane % nlanes].append(job)
    sys.stdout.flush()
    sys.stderr.flush()
    for b in buckets:
        r, w = os.pipe()
        pid = os.fork()
        if pid == 0:
            os.close(r)
            for (_, r2, _) in lanes:
                try:
                    os.close(r2)
                except OSError:
                    pass
            _lane_main(prop, tier, verif_seed, b, w, timeout)
        os.close(w)
        try:
            os.setpgid(pid, pid)
        except OSError:
            pass
        lanes.append([pid, r, b""])
    t0 = time.time()
    state = {"truncated": False, "stopped": False}
    run_jobs.state = state
    live = {l[1]: l for l in lanes}
    try:
        while live:
            if wall_cap and time.time() - t0 > wall_cap:
                state["truncated"] = True
                break
            rl, _, _ = select.select(list(live), [], [], 1.0)
            for fd in rl:
                lane = live[fd]
                chunk = os.read(fd, 1 << 16)
                if not chunk:
                    del live[fd]
                    continue
                lane[2] += chunk
                while b"\n" in lane[2]:
                    line, lane[2] = lane[2].split(b"\n", 1)
                    res = json.loads(line.decode("utf-8"))
                    yield res
                    if stop_pred and stop_pred(res):
                        state["stopped"] = True
            if state["stopped"]:
                break
    finally:
        for pid, r, _ in lanes:
            try:
                os.killpg(pid, signal.SIGKILL)
            except OSError:
                try:
                    os.kill(pid, signal.SIGKILL)
                except OSError:
                    pass
            try:
                os.close(r)
            except OSError:
                pass
        for pid, _, _ in lanes:
            try:
                os.waitpid(pid, 0)
            except OSError:
                pass


def exec_plan(prop, tier, plan, timeout=120.0, want_tail=False):
    job = {"tag": "min", "plan": plan, "want_tail": want_tail}
    return fork_and_run(prop, tier, 0, job, timeout)

"""C14 — sequence files parse to exactly their residues.

The mapping file bytes -> residues is reached through a stream: the simulator
owns the disk the file sits on (SimFS), the party that wrote it (a simulated
writer that may crash mid-write, leaving a torn file) and the raw reads that
fetch it (short reads splitting CRLF and code points, EIO, open errors).
Oracle: an independent reference parser written from the statement, applied
to the bytes actually durable on the simulated disk.
"""
import copy

from .. import envmode
from ..kernel import Violation, Discard, SimCrash, feq, canon, cjson
from ..kernel import quiet_print as _quiet_print
from ..gen import AA, gen_seq
from ..simfs import SimFS
from ..minimise import list_candidates

ID = "C14"
LEVEL = "exploration"
TIERS = {
    "quick": {"runs": 12000, "wall_cap": 120, "timeout": 180, "dups": 16},
    "thorough": {"runs": 300000, "wall_cap": 1700, "timeout": 180, "dups": 64},
}
RULE = ("Each run is a history of 1-4 files in one process (new content at a fresh or an already used path, or a second read of a file already on the disk; "
        "4% of runs start with a file larger than the 8 KiB I/O buffer). Per file: a simulated writer lays a seeded sequence (N 1-300) out on SimFS (optional '>' header, line length 1-80 / ragged / "
        "10-residue groups with position numbers, blank and space-only lines, LF or CRLF, with/without final newline, optional final '*'), "
        "then optionally crashes mid-write (torn file) or applies one corruption (second header; second '*'; non-final '*'; one foreign "
        "character: other letters, lower case, punctuation, non-whitespace control bytes, invalid UTF-8). The reader calls "
        "SequenceFileParser.parseSeqFile and the two file constructors under a read-fault plan (raw reads of 1..k bytes, EIO at the k-th "
        "FS event, ENOENT/EACCES/EISDIR at open). Non-trivial: the file was corrupted or torn, or a read fault / short-read plan was "
        "active; distinct = distinct event-log digests of such runs.")
SIG_RULE = "(layout feature bitmap, corruption class, fault kind, error fired before/inside/after data, api)"
REAL = ["localcider.backend.seqfileparser.SequenceFileParser (parseSeqFile, __validSeq, __final_validation)",
        "file branches of SequenceParameters.__init__ and SequencePermutants.__init__",
        "CPython io.TextIOWrapper / io.BufferedReader (decoding, universal newlines, buffering)"]
STUBBED = ["the raw device under seqfileparser.open (SimFS.SimRaw): chunking, EIO, open errors, torn files"]
ASSUMPTIONS = ["non-space whitespace strictly inside a sequence line (TAB, NBSP, U+3000) counts as a foreign character; not generated because the statement is silent: non-space whitespace at the ends of a line, characters some splitters treat as line boundaries (VT, FF, FS-US, NEL, U+2028/9), BOMs, lone CR, non-ASCII digits, "
               "files reducing to an empty sequence, a first header appearing after sequence lines (the reference refuses to judge these: DISCARDED)",
               "a file with lower-case forms of the 20 residue letters may be rejected or must parse to exactly the upper-cased residues (both readings accepted, nothing else); other lower-case letters count as foreign characters",
               "open handles after a call are counted as a probe, not a verdict (the statement does not mention handles)"]
PROBES = ["file_name_with_glob_characters", "parser_instance_reused", "second_object_from_same_file_after_mutator", "later_file_in_same_process", "same_file_read_again", "path_rewritten_with_new_content", "file_larger_than_io_buffer", "torn_file", "torn_inside_header", "crlf", "short_reads_1_byte", "chunk_splits_crlf", "eio_fired_before_eof", "eio_scheduled_past_eof",
          "open_error", "corrupt_second_header", "corrupt_second_star", "corrupt_nonfinal_star", "corrupt_foreign_char",
          "corrupt_invalid_utf8", "valid_with_star", "numbered_layout", "panel_compared", "permutants_constructor",
          "no_final_newline", "reference_rejects", "reference_accepts"]

FOREIGN_LETTERS = "BJOUXZ"
LOWER = "acdefghiklmnpqrstvwybjouxz"
PUNCT = "-.,;:_#/\\(?!@$%&+=|~'\")[]{}<^`"
CONTROL = "\x00\x01\x02\x07\x08\x1b\x7f"
INNER_WS = "\t\t\xa0\u3000\u2003"
COMMENTISH = "##;!%"          # characters that open a comment in other file formats
PATH = "/sim/seq.fasta"


# ------------------------------------------------------------------ the writer
def lay_out(rnd, seq, meta):
    eol = "\r\n" if rnd.random() < 0.3 else "\n"
    meta["crlf"] = eol == "\r\n"
    lines = []
    for _ in range(rnd.choice((0, 0, 0, 1, 2))):
        lines.append(rnd.choice(("", " ", "   ")))
        meta["leading_blank"] = True
    if rnd.random() < 0.55:
        meta["header"] = True
        if rnd.random() < 0.03:
            meta["long_header"] = True
            lines.append(">" + " ".join(rnd.choice(("ACTIN", "ALPHA", "kinase", "sp|Q9", "OS=Homo", "12", "*", "GN=X")) for _ in range(rnd.randrange(1500, 4000))))
        else:
            lines.append(">" + rnd.choice((
            "sp|P04637|P53_HUMAN Cellular tumor antigen p53 OS=Homo sapiens", "seq1", "", "x * 12 >> ACDEFG * lower case too",
            "1", "id=%d len=%d *" % (rnd.randrange(1000), len(seq)))))
    style = rnd.choice(("plain", "plain", "ragged", "grouped", "single", "one_per_line"))
    meta["style"] = style
    body = []
    if style == "single":
        body = [seq]
    elif style == "one_per_line":
        body = list(seq[:60]) + ([seq[60:]] if len(seq) > 60 else [])
    elif style == "plain":
        L = rnd.choice((rnd.randrange(1, 81), 60, 70, 80, 10))
        body = [seq[i:i + L] for i in range(0, len(seq), L)]
    elif style == "ragged":
        i = 0
        while i < len(seq):
            L = rnd.randrange(1, 81)
            body.append(seq[i:i + L])
            i += L
    else:
        per = rnd.choice((3, 5, 6))
        numbering = rnd.choice(("none", "lead", "trail", "both"))
        meta["numbered"] = numbering != "none"
        i = 0
        while i < len(seq):
            chunk = seq[i:i + 10 * per]
            groups = " ".join(chunk[j:j + 10] for j in range(0, len(chunk), 10))
            if numbering in ("lead", "both"):
                groups = "%9d %s" % (i + 1, groups)
            if numbering in ("trail", "both"):
                groups = "%s %d" % (groups, i + len(chunk))
            body.append(groups)
            i += 10 * per
    out = []
    for b in body:
        if rnd.random() < 0.15:
            b = " " * rnd.randrange(1, 4) + b
        if rnd.random() < 0.15:
            b = b + " " * rnd.randrange(1, 4)
        out.append(b)
        if rnd.random() < 0.12:
            out.append(rnd.choice(("", "  ")))
            meta["inner_blank"] = True
    star = rnd.random() < 0.3
    meta["star"] = star
    if star:
        how = rnd.randrange(3)
        if how == 0:
            out[-1] = out[-1].rstrip(" ") + "*" if not out[-1].strip() == "" else "*"
            if not out[-1].endswith("*"):
                out.append("*")
        elif how == 1:
            out.append("*")
        else:
            out.append(" * ")
    lines.extend(out)
    for _ in range(rnd.choice((0, 0, 1, 2))):
        lines.append(rnd.choice(("", " ")))
    text = eol.join(lines)
    if rnd.random() < 0.75:
        text += eol
    else:
        meta["no_final_newline"] = True
    return text


def seq_line_spans(text):
    """(start, end) character spans of the non-blank, non-header lines of text."""
    spans = []
    pos = 0
    for ln in text.split("\n"):
        body = ln[:-1] if ln.endswith("\r") else ln
        if body.strip(" ") and not body.strip(" ").startswith(">"):
            spans.append((pos, pos + len(body)))
        pos += len(ln) + 1
    return spans


def corrupt(rnd, text, meta):
    kind = rnd.choice(("second_header", "second_star", "nonfinal_star", "foreign", "foreign", "foreign", "invalid_utf8"))
    meta["corruption"] = kind
    data = text.encode("utf-8")
    spans = seq_line_spans(text)
    if not spans:
        meta["corruption"] = "none"
        return data
    eol = "\r\n" if meta.get("crlf") else "\n"
    if kind == "second_header":
        hdr = ">second record"
        if not meta.get("header"):
            text = ">first" + eol + text
            spans = seq_line_spans(text)
        a, b = rnd.choice(spans)
        where = rnd.choice(("after", "after", "before_later", "before_first", "before_first", "prefix_first"))
        if where == "before_first":
            # directly behind the first header (optionally after a blank line): no residue has been seen yet
            a0 = spans[0][0]
            text = text[:a0] + rnd.choice(("", eol, " " + eol)) + hdr + eol + text[a0:]
        elif where == "prefix_first":
            # the single-character corruption '>' in front of the first sequence line turns it into a second header
            a0 = spans[0][0]
            line = text[a0:spans[0][1]]
            a0 += len(line) - len(line.lstrip(" "))
            text = text[:a0] + ">" + text[a0:]
            if len(spans) < 2:
                text = text + eol + "ACDE" + eol
        elif where == "after" or len(spans) < 2:
            # insert a new line holding the header after this sequence line
            text = text[:b] + eol + hdr + text[b:]
        else:
            a, b = rnd.choice(spans[1:])
            text = text[:a] + hdr + eol + text[a:]
        return text.encode("utf-8")
    if kind in ("second_star", "nonfinal_star"):
        a, b = rnd.choice(spans)
        # position strictly inside the residues: put the star before some residue character
        if rnd.random() < 0.3:
            a, b = spans[-1]                  # near the end: next to a final star, or after the last residue of a starless file
        cands = [i for i in range(a, b + 1) if i == b or text[i] in AA or text[i] == "*"]
        i = rnd.choice(cands) if rnd.random() < 0.7 else b
        text = text[:i] + "*" + text[i:]
        return text.encode("utf-8")
    a, b = rnd.choice(spans)
    line = text[a:b]
    first = len(line) - len(line.lstrip(" "))
    i = a + rnd.randrange(first, len(line.rstrip(" "))) if line.strip(" ") else a
    if kind == "invalid_utf8":
        bad = rnd.choice((b"\xff", b"\x80", b"\xc3", b"\xe2\x82", b"\xfe"))
        pre = text[:i].encode("utf-8")
        post = text[i:].encode("utf-8")
        return pre + bad + post
    pool = rnd.choice((FOREIGN_LETTERS, LOWER, PUNCT, CONTROL, "éßα中", INNER_WS, COMMENTISH))
    ch = rnd.choice(pool)
    meta["foreign_class"] = {FOREIGN_LETTERS: "letter", LOWER: "lower", PUNCT: "punct", CONTROL: "control", INNER_WS: "inner_ws"}.get(pool, "unicode")
    if pool == INNER_WS:
        # strictly inside the line: between two non-blank characters
        inner = [j for j in range(a + first + 1, a + len(line.rstrip(" "))) if text[j] != " " and text[j - 1] != " "]
        if not inner:
            pool, ch = PUNCT, "-"
            meta["foreign_class"] = "punct"
        else:
            i = rnd.choice(inner)
            text = text[:i] + ch + text[i:]
            return text.encode("utf-8")
    if ch == ">" and i == a + first:
        ch = "#"
    if rnd.random() < 0.5 and text[i] != " ":
        text = text[:i] + ch + text[i + 1:]     # replace
        if i == a + first and ch == ">":
            text = text[:i] + "#" + text[i + 1:]
    else:
        if i == a + first and ch == ">":
            ch = "#"
        text = text[:i] + ch + text[i:]        # insert
    return text.encode("utf-8")


def gen_step(rnd, frnd, big=False):
    if big:
        n = rnd.randrange(2000, 12000)
    else:
        n = rnd.choice((rnd.randrange(1, 6), rnd.randrange(1, 40), rnd.randrange(20, 120), rnd.randrange(60, 301)))
    seq = gen_seq(rnd, n, rnd.choice(("uniform", "idp", "uniform", "lowcomplexity")))
    meta = {}
    text = lay_out(rnd, seq, meta)
    x = rnd.random()
    torn = None
    if x < 0.35:
        data = corrupt(rnd, text, meta)
    else:
        data = text.encode("utf-8")
        meta["corruption"] = "none"
        if x < 0.5:
            torn = rnd.randrange(0, len(data) + 1)
    fault = {"chunks": None, "eio_at": None, "open": None}
    y = frnd.random()
    if y < 0.35:
        c = frnd.choice(("one", "small", "mixed"))
        if c == "one" and not big:
            fault["chunks"] = [1]
        elif c == "small" and not big:
            fault["chunks"] = [frnd.randrange(1, 4) for _ in range(7)]
        else:
            fault["chunks"] = [frnd.choice((1, 2, 3, 5, 8, 13, 64, 500, 4096, 8191, 8192, 8193)) for _ in range(11)]
    if y > 0.7:
        if frnd.random() < 0.8:
            nreads = max(1, len(data) // max(1, min(fault["chunks"] or [8192])))
            fault["eio_at"] = frnd.choice((1, 2, 3, frnd.randrange(2, nreads + 4), nreads + 2, nreads + 3, nreads + 6))
        else:
            fault["open"] = frnd.choice(("ENOENT", "EACCES", "EISDIR"))
    api = rnd.choice(("parser", "parser", "SP", "SP", "perm"))
    st = {"file": data.decode("latin-1"), "torn_at": torn, "fault": fault, "api": api, "meta": meta,
          "path": rnd.choice((PATH, PATH, "/sim/other.txt", "/sim/P04637[1].fasta", "/sim/seq *.txt", "/sim/a?c.fa", "/sim/sub dir/seq.fasta", "/sim/séq.fasta"))}
    if api == "SP" and rnd.random() < 0.35:
        st["twin"] = {"mut": rnd.choice(("sites", "palette"))}
    if api == "parser" and rnd.random() < 0.3:
        st["silent"] = True
    if api == "parser" and rnd.random() < 0.5:
        st["shared_parser"] = True
    if api == "parser" and rnd.random() < 0.25:
        st["kw"] = True
    return st


def gen_plan(streams, tier):
    rnd = streams.stream("plan")
    frnd = streams.stream("faults")
    nsteps = rnd.choice((1, 1, 1, 2, 2, 3, 4))
    steps = []
    for k in range(nsteps):
        if steps and rnd.random() < 0.25:
            # read a file that is already on the disk once more (nothing is written)
            prev = rnd.choice(steps)
            st = {"reuse": True, "path": prev["path"], "fault": {"chunks": rnd.choice((None, [1], [3, 2])), "eio_at": None, "open": None},
                  "api": rnd.choice(("parser", "parser", "SP", "perm")), "meta": {"reuse": True}, "shared_parser": rnd.random() < 0.6}
            if st["api"] == "SP" and rnd.random() < 0.5:
                st["twin"] = {"mut": rnd.choice(("sites", "palette"))}
        else:
            st = gen_step(rnd, frnd, big=(k == 0 and rnd.random() < 0.04))
        steps.append(st)
    return {"property": ID, "env": envmode.choose(rnd), "noise": (rnd.randrange(1 << 30) if rnd.random() < 0.2 else None), "run_seed": streams.run_seed, "steps": steps}


def corpus():
    out = []

    def mk(name, text, **kw):
        st = {"file": text.encode("utf-8").decode("latin-1"), "torn_at": None,
              "fault": {"chunks": None, "eio_at": None, "open": None}, "api": "parser", "meta": {"corpus": name}, "path": PATH}
        env = kw.pop("env", None)
        st.update(kw)
        out.append((name, {"property": ID, "run_seed": 140 + len(out), "steps": [st], "env": env}))
    body = "MEEPQSDPSV EPPLSQETFS DLWKLLPENN\nVLSPLPSQAM DDLMLSPDDI\n"
    mk("fasta_grouped_numbered", ">sp|P04637\n        1 MEEPQSDPSV EPPLSQETFS 20\n       21 DLWKLLPENN 30\n\n")
    mk("plain_crlf_star", "ACDEFGHIKL\r\nMNPQRSTVWY*\r\n", fault={"chunks": [1], "eio_at": None, "open": None})
    mk("header_longer_than_the_io_buffer", ">" + "ALPHA SKELETAL ACTIN " * 600 + "\nMKVLAAG\nACDEF\n")
    mk("second_header", ">a\nACDEF\n>b\nGHIKL\n")
    mk("second_header_directly_after_first", ">a\n>b\nACDEF\nGHIKL\n")
    mk("second_header_after_blank_line", ">a\n\n>b\nACDEF\n")
    mk("gt_in_front_of_first_sequence_line", ">a\n>ACDEF\nGHIKL\n")
    mk("two_stars", "ACDEF*\nGHIKL*\n")
    mk("two_stars_at_the_end", "ACDEF\nGHIKL**\n")
    mk("two_stars_at_the_end_own_lines", ">h\nACDEF\nGHIKL*\n*\n")
    mk("two_stars_at_the_end_spaced", "ACDEF GHIKL* *\n")
    mk("nonfinal_star", "ACD*EF\n")
    mk("foreign_lower", "ACDEf\n")
    mk("foreign_X", ">h\nACDXEF\n")
    mk("hash_comment_all_submodules_imported", ">h\nACDEF # the rest\nGHIK\n", env="all_submodules_imported")
    mk("hash_inside_a_line", "ACD#EF\n")
    mk("tab_inside_a_line", ">h\nACD\tEF\nGHIK\n")
    mk("nbsp_inside_a_line", "ACDEF\nGH\xa0IK\n")
    mk("eio_mid_file", body * 8, fault={"chunks": [16], "eio_at": 9, "open": None})
    mk("eio_first_read", body, fault={"chunks": None, "eio_at": 2, "open": None})
    mk("missing_file", body, fault={"chunks": None, "eio_at": None, "open": "ENOENT"})
    mk("torn_mid_line", ">h\n" + body, torn_at=25)
    mk("sp_constructor_panel", ">h\n" + body, api="SP", fault={"chunks": [3, 1, 2], "eio_at": None, "open": None})
    mk("two_objects_same_file_sites", ">h\n" + body, api="SP", twin={"mut": "sites"})
    mk("two_objects_same_file_palette", body, api="SP", twin={"mut": "palette"})
    mk("perm_constructor", body, api="perm")
    mk("invalid_utf8", "ACDEF\n".encode().decode("latin-1") + "\xff" + "GHI\n")

    def st(text, path=PATH, **kw):
        d = {"file": text.encode("utf-8").decode("latin-1"), "torn_at": None, "fault": {"chunks": None, "eio_at": None, "open": None},
             "api": "parser", "meta": {}, "path": path}
        d.update(kw)
        return d
    out.append(("one_parser_object_for_several_files", {"property": ID, "run_seed": 163, "steps": [
        st(">a\nACDEFGHIK\n", shared_parser=True), st(">b\nLMNPQ\n", path="/sim/other.txt", shared_parser=True),
        {"reuse": True, "path": PATH, "fault": {"chunks": None, "eio_at": None, "open": None}, "api": "parser", "meta": {}, "shared_parser": True},
        st("ACD*EF\n", shared_parser=True), st(">c\nRSTVWY*\n", shared_parser=True)]}))
    out.append(("file_names_with_glob_characters", {"property": ID, "run_seed": 164, "steps": [
        st(">a\nACDEFGHIK\n", path="/sim/P04637[1].fasta", api="SP"), st("LMNPQ*RS\n", path="/sim/P04637[1].fasta", api="SP"),
        st("ACDEF\n", path="/sim/seq *.txt", api="perm"), st(">x\nGHIKL\n", path="/sim/a?c.fa", api="parser")]}))
    out.append(("same_path_rewritten", {"property": ID, "run_seed": 160, "steps": [
        st(">a\nACDEFGHIK\n"), st(">b\nLMNPQ\nRSTVWY\n"), {"reuse": True, "path": PATH, "fault": {"chunks": [1], "eio_at": None, "open": None}, "api": "SP", "meta": {}},
        st("KKKK\n", path="/sim/other.txt", api="perm"), {"reuse": True, "path": PATH, "fault": {"chunks": None, "eio_at": None, "open": None}, "api": "parser", "meta": {}}]}))
    out.append(("bad_file_then_good_file", {"property": ID, "run_seed": 161, "steps": [
        st(">a\nACDEF\n>b\nGHIK\n"), st("ACD*EF\n"), st(">ok\nACDEF\nGHIK*\n"), st("ACDEF\n", fault={"chunks": None, "eio_at": 2, "open": None}), st("GHIKL\n")]}))
    big = "\n".join("ACDEFGHIKLMNPQRSTVWY" * 3 for _ in range(300)) + "\n"
    out.append(("file_larger_than_the_io_buffer", {"property": ID, "run_seed": 162, "steps": [
        st(">big\n" + big, fault={"chunks": [8192, 1, 4096], "eio_at": None, "open": None}), st(">big\n" + big + "X\n"), st(big, torn_at=9000)]}))
    return out


# ------------------------------------------------------------------ the reference parser
def ref_parse(data):
    """('ok', residues) | ('reject', why) | ('ambig', why) | ('either', residues: the file may be rejected or must parse
    to exactly these) for the bytes of a file."""
    try:
        text = data.decode("utf-8")
    except UnicodeDecodeError:
        return ("reject", "not decodable")
    if text.startswith("﻿"):
        return ("ambig", "BOM")
    text = text.replace("\r\n", "\n")
    if "\r" in text:
        return ("ambig", "lone CR")
    header = False
    seen_seq = False
    lower_seen = False
    kept = []
    for line in text.split("\n"):
        for ch in line:
            if ch in "\x0b\x0c\x1c\x1d\x1e\x1f\x85\u2028\u2029":
                return ("ambig", "character that some line splitters treat as a line boundary")
        if line.strip() != line.strip(" "):
            return ("ambig", "non-space whitespace at the end of a line (line trimming may or may not remove it)")
        # non-space whitespace strictly inside a line (TAB, NBSP, U+3000, ...) is just another foreign character
        body = line.strip(" ")
        if body == "":
            continue
        if body[0] == ">":
            if line[0] != ">":
                return ("ambig", "header line with leading spaces")
            if header:
                return ("reject", "second header")
            if seen_seq:
                return ("ambig", "first header after sequence lines")
            header = True
            continue
        seen_seq = True
        for ch in body:
            if ch in AA or ch == "*":
                kept.append(ch)
            elif ch == " " or ch in "0123456789":
                continue
            elif ch.isdigit():
                return ("ambig", "non-ASCII digit")
            elif ch.upper() in AA and len(ch.upper()) == 1:
                # a lower-case residue letter: either a foreign character (rejected, as today) or a soft-masked
                # residue (read as its upper-case form); the statement allows both readings and nothing else
                lower_seen = True
                kept.append(ch.upper())
            else:
                return ("reject", "foreign character %r" % ch)
    s = "".join(kept)
    stars = s.count("*")
    if stars > 1:
        return ("reject", "repeated *")
    if stars == 1:
        if not s.endswith("*"):
            return ("reject", "non-final *")
        s = s[:-1]
    if s == "":
        return ("ambig", "empty sequence")
    if lower_seen:
        return ("either", s)
    return ("ok", s)


# ------------------------------------------------------------------ execution
PANEL = ("get_sequence", "get_length", "get_FCR", "get_NCPR", "get_mean_hydropathy", "get_uversky_hydropathy", "get_countPos",
         "get_countNeg", "get_molecular_weight", "get_amino_acid_fractions", "get_HTMLColorString", "get_fraction_disorder_promoting",
         "get_isoelectric_point", "get_phasePlotRegion", "get_all_phosphorylatable_sites", "get_Omega_sequence")


def execute(plan, ctx):
    envmode.apply(plan.get("env"), ctx)
    import localcider.backend.seqfileparser as sfp
    import localcider.sequenceParameters as spmod
    spmod.print = _quiet_print
    fs = SimFS(ctx, prefix="dst_c14_")
    sfp.open = fs.open
    steps = plan.get("steps")
    if steps is None:                      # single-file plan (older replay files)
        steps = [dict(plan, path=PATH)]
    if plan.get("noise") is not None:
        from ..noise import noise_prelude
        noise_prelude(ctx, plan["noise"])
    rnd = ctx.streams.stream("exec")
    # the files live in a real scratch directory behind the seam, so metadata calls on the path
    # (os.stat, os.path.exists) behave as on a real disk
    try:
        for k, step in enumerate(steps):
            do_step(k, step, fs, ctx, rnd, sfp)
            if k:
                ctx.probe("later_file_in_same_process")
    finally:
        fs.cleanup()
    ctx.count("fs_events", fs.nevents)


SHARED = {}


def do_step(k, plan, fs, ctx, rnd, sfp):
    from localcider.sequenceParameters import SequenceParameters
    from localcider.sequencePermutants import SequencePermutants
    meta = plan.get("meta", {})
    fault = plan["fault"]
    PATHK = fs.path(plan.get("path", PATH))
    fs.faults = []
    fs.chunks = None
    fs.open_faults = {}

    import os as _os
    if any(ch in PATHK for ch in "[*?"):
        # a neighbour that the name would match if it were (wrongly) treated as a pattern
        ctx.probe("file_name_with_glob_characters")
        for nb in ("P046371.fasta", "seq x.txt", "abc.fa"):
            if not fs.exists(fs.root + "/" + nb):
                fs.write_file(fs.root + "/" + nb, b">neighbour\nWWWWWWWWWW\n")
    if not _os.path.isdir(_os.path.dirname(PATHK)):
        _os.makedirs(_os.path.dirname(PATHK))
    if plan.get("reuse"):
        ctx.probe("same_file_read_again")
    else:
        data = plan["file"].encode("latin-1")
        # the writer: writes the file through the simulated disk, possibly crashing mid-write
        if plan.get("torn_at") is not None:
            fs.faults = [{"at": fs.nevents + 2, "kind": "crash", "torn": int(plan["torn_at"])}]
        if fs.exists(PATHK):
            ctx.probe("path_rewritten_with_new_content")
        try:
            fh = fs.open(PATHK, "w", newline="")
            raw = fh.buffer
            fh.flush()
            raw.write(data)          # one buffered write; reaches the raw device at flush/close
            raw.flush()
            fh.close()
        except SimCrash:
            ctx.probe("torn_file")
        fs.restart()
        fs.faults = []
    durable = fs.read_file(PATHK)
    ctx.log.emit("durable", k=k, n=len(durable), torn=plan.get("torn_at"))
    if len(durable) > 8192:
        ctx.probe("file_larger_than_io_buffer")
    if plan.get("torn_at") is not None and b"\n" not in durable and durable[:1] == b">":
        ctx.probe("torn_inside_header")

    verdict, val = ref_parse(durable)
    ctx.log.emit("reference", verdict=verdict, n=len(val) if verdict == "ok" else None)
    if verdict == "ambig":
        if k == 0:
            raise Discard("reference refuses: " + val)
        ctx.count("ambiguous_later_step_skipped")
        return
    ctx.probe("reference_accepts" if verdict == "ok" else "reference_accepts_or_rejects" if verdict == "either" else "reference_rejects")
    if meta.get("crlf"):
        ctx.probe("crlf")
    if meta.get("numbered"):
        ctx.probe("numbered_layout")
    if meta.get("no_final_newline"):
        ctx.probe("no_final_newline")
    c = meta.get("corruption")
    if c and c != "none":
        ctx.probe({"second_header": "corrupt_second_header", "second_star": "corrupt_second_star", "nonfinal_star": "corrupt_nonfinal_star",
                   "foreign": "corrupt_foreign_char", "invalid_utf8": "corrupt_invalid_utf8"}[c])
        ctx.nontrivial = True
    if verdict == "ok" and durable.rstrip(b" \r\n0123456789").endswith(b"*"):
        ctx.probe("valid_with_star")

    # the read-fault plan
    fs.chunks = fault.get("chunks")
    fs._chunk_i = 0
    if fs.chunks:
        ctx.nontrivial = True
        if fs.chunks == [1]:
            ctx.probe("short_reads_1_byte")
        if b"\r\n" in durable:
            ctx.probe("chunk_splits_crlf")
        ctx.fault("short_reads")
    if plan.get("torn_at") is not None or k > 0:
        ctx.nontrivial = True
    path = PATHK
    if fault.get("open") == "ENOENT":
        path = fs.root + "/missing.fasta"
        ctx.fault("fs_open_ENOENT")
        ctx.probe("open_error")
    elif fault.get("open") == "EISDIR":
        path = fs.root + "/dir"
        import os as _os
        _os.makedirs(path, exist_ok=True)
        ctx.fault("fs_open_EISDIR")
        ctx.probe("open_error")
    elif fault.get("open") == "EACCES":
        fs.open_faults[PATHK] = "EACCES"
        ctx.probe("open_error")
    want_ok = verdict == "ok" and not fault.get("open")
    base_events = fs.nevents

    def attempt(api):
        if fault.get("eio_at"):
            fs.faults = [{"at": fs.nevents + int(fault["eio_at"]), "kind": "eio"}]
        fs.saw_eof = False
        fired0 = fs.errors_fired
        err = None
        val = None
        try:
            if api == "parser":
                if plan.get("shared_parser"):
                    # the caller keeps one parser object for all its files ("a stateless sequence parsing machine")
                    if "parser" not in SHARED:
                        SHARED["parser"] = sfp.SequenceFileParser()
                    else:
                        ctx.probe("parser_instance_reused")
                    parser = SHARED["parser"]
                else:
                    parser = sfp.SequenceFileParser()
                # the way the call is spelled (positional / keyword, with or without the quiet flag) is chosen
                # from the signature, so that a call the signature cannot accept is never mistaken for a rejection
                import inspect
                forms = []
                if plan.get("silent") and plan.get("kw"):
                    forms.append(((), {"filename": path, "silent": True}))
                if plan.get("silent"):
                    forms += [((path, True), {}), ((path,), {"silent": True})]
                if plan.get("kw"):
                    forms.append(((), {"filename": path}))
                forms.append(((path,), {}))
                try:
                    sig = inspect.signature(parser.parseSeqFile)
                except Exception:
                    sig = None
                cargs, ckw = (path,), {}
                for fa, fk in forms:
                    try:
                        if sig is not None:
                            sig.bind(*fa, **fk)
                        cargs, ckw = fa, fk
                        break
                    except TypeError:
                        continue
                val = parser.parseSeqFile(*cargs, **ckw)
            elif api == "SP":
                val = SequenceParameters(sequenceFile=path)
            else:
                val = SequencePermutants(sequenceFile=path)
                ctx.probe("permutants_constructor")
        except Exception as e:
            err = e
            if fs.open_handles:
                ctx.probe("handles_open_while_error_propagates")
        fired = fs.errors_fired - fired0
        if fault.get("eio_at"):
            if fired and not fs.saw_eof:
                ctx.probe("eio_fired_before_eof")
                ctx.nontrivial = True
            elif not fired:
                ctx.probe("eio_scheduled_past_eof")
        if err is None and fs.open_handles:
            ctx.probe("handles_open_after_return")
        ctx.log.emit("attempt", k=k, api=api, err=type(err).__name__ if err else None, fired=fired, events=fs.nevents - base_events)
        ctx.sig(meta.get("style"), bool(meta.get("header")), bool(meta.get("crlf")), bool(meta.get("star")), c or "none",
                "torn" if plan.get("torn_at") is not None else "-", "open:" + str(fault.get("open")) if fault.get("open") else
                ("eio:" + ("fired_pre_eof" if fired and not fs.saw_eof else "fired_post" if fired else "unfired") if fault.get("eio_at") else
                 ("chunks" if fs.chunks else "clean")), api, verdict, min(k, 2))
        return val, err, fired

    def residues_of(api, val):
        if api == "parser":
            return val
        if api == "SP":
            return val.get_sequence()
        try:
            from localcider.sequenceParameters import SequenceParameters as _SP
            return _SP(SeqObj=val.SeqObj).get_sequence()
        except Exception:
            return None          # the permutants object does not expose its sequence this way: compared as a multiset below

    api = plan["api"]
    val, err, fired = attempt(api)
    desc = "file #%d at %s of %d bytes (%s%s), read plan %s" % (k + 1, fs.show(PATHK), len(durable), c or "layout as generated", ", torn at %s" % plan.get("torn_at") if plan.get("torn_at") is not None else "", cjson(fault))
    if err is None:
        got = residues_of(api, val)
        # an open error counts only if it really happened: ENOENT / EISDIR are real conditions of the scratch
        # disk, the simulated EACCES exists only behind the seam (a reader that opens the file some other way
        # never meets it and is then judged as fault-free)
        open_failed = fault.get("open") in ("ENOENT", "EISDIR") or (fault.get("open") == "EACCES" and fired)
        if fault.get("open") == "EACCES" and not fired:
            ctx.probe("open_fault_bypassed_by_reader")
        if verdict == "reject" or open_failed:
            raise Violation("bad_file_accepted", "accepted:" + (("open_" + str(fault.get("open"))) if open_failed else val_reason(durable)),
                            "%s: %s returned %r but the file must be rejected (%s)" % (desc, api, (got or "")[:60], ref_parse(durable)[1] if not open_failed else fault.get("open")))
        if got is None:
            w = ref_parse(durable)[1]
            perm = val.get_permutant().get_sequence()
            if sorted(perm) != sorted(w):
                raise Violation("wrong_residues", "wrong_residues", "%s: a permutant of the object built from the file is %r..., the file holds %r..." % (desc, perm[:50], w[:50]))
        elif got != ref_parse(durable)[1] and not (verdict == "either" and isinstance(got, str) and got.upper() == ref_parse(durable)[1]):
            # (a file with soft-masked residues may be handed on as written: the objects built from it upper-case it)
            w = ref_parse(durable)[1]
            raise Violation("wrong_residues", "wrong_residues" + (":after_io_error" if fired else ""),
                            "%s: %s returned %d residues %r..., the file holds %d residues %r...%s" % (
                                desc, api, len(got), got[:50], len(w), w[:50], " (an injected I/O error had fired)" if fired else ""))
    else:
        if want_ok and not fired:
            raise Violation("valid_file_rejected", "rejected", "%s: %s raised %r on a valid file holding %r..." % (desc, api, err, ref_parse(durable)[1][:50]))
    # several objects from the same unchanged file, one of them modified: each must still answer like a
    # string-built object that received the same calls
    if err is None and api == "SP" and plan.get("twin"):
        tw = plan["twin"]
        fs.faults = []
        s_ref = ref_parse(durable)[1]
        sty = [j + 1 for j, ch in enumerate(s_ref) if ch in "STY"]
        sites = sty[:: max(1, len(sty) // 3)][:3] if sty else [1]
        pal = {a: "red" for a in AA}
        string_a = SequenceParameters(s_ref)
        for o in (val, string_a):
            if tw.get("mut") == "sites":
                o.set_phosphosites(list(sites))
            else:
                o.set_HTMLColorResiduePalette(dict(pal))
        other = SequenceParameters(sequenceFile=path)
        string_b = SequenceParameters(s_ref)
        ctx.probe("second_object_from_same_file_after_mutator")
        for label, x, y in (("the modified object", val, string_a), ("a second object built from the same file afterwards", other, string_b)):
            for name in ("get_phosphosites", "get_phosphosequence", "get_HTMLColorString", "get_sequence", "get_kappa_after_phosphorylation" if len(s_ref) <= 150 else "get_length"):
                a = safe_call(x, name)
                b = safe_call(y, name)
                if cjson(canon(a)) != cjson(canon(b)):
                    raise Violation("file_object_differs", "twin:" + name, "%s: %s() on %s gives %s, on the object built from the string %s" % (
                        desc, name, label, cjson(canon(a))[:120], cjson(canon(b))[:120]))
        val = other
    # panel: an object built from the file answers like an object built from the string
    if err is None and api == "SP":
        refobj = SequenceParameters(ref_parse(durable)[1])
        names = list(PANEL)
        N = len(ref_parse(durable)[1])
        if N > 1500:
            names = ["get_sequence", "get_length", "get_FCR", "get_countPos", "get_mean_hydropathy", "get_amino_acid_fractions"]
        elif N <= 120:
            names += ["get_kappa", "get_delta", "get_deltaMax", "get_Omega", "get_SCD"]
        rnd.shuffle(names)
        for name in names[:8]:
            a = safe_call(val, name)
            b = safe_call(refobj, name)
            if cjson(canon(a)) != cjson(canon(b)):
                raise Violation("file_object_differs", "panel:" + name, "%s: %s() on the object built from the file gives %r, on the object built from the string %r" % (
                    desc, name, a, b))
            ctx.probe("panel_compared")
        if 5 <= N <= 1500:
            a = safe_call(val, "get_linear_NCPR", 5)
            b = safe_call(refobj, "get_linear_NCPR", 5)
            if cjson(canon(a)) != cjson(canon(b)):
                raise Violation("file_object_differs", "panel:get_linear_NCPR", "get_linear_NCPR differs")
        if len(val) != len(refobj):
            raise Violation("file_object_differs", "panel:len", "len() differs between the object built from the file and the one built from the string")
    ctx.count("files")


def val_reason(durable):
    v = ref_parse(durable)
    return v[1].split(" ")[0] if v[0] == "reject" else "?"


def safe_call(o, name, *a):
    try:
        return getattr(o, name)(*a)
    except Exception as e:
        return e


def shrink(plan, res):
    steps = plan.get("steps")
    if steps is None:
        return
    for c in list_candidates(plan, "steps"):
        if c["steps"] and not c["steps"][0].get("reuse"):
            yield c
    for k, st in enumerate(steps):
        if st.get("reuse"):
            continue
        f = st["fault"]
        for key in ("chunks", "eio_at", "open"):
            if f.get(key) is not None:
                c = copy.deepcopy(plan)
                c["steps"][k]["fault"][key] = None
                yield c
        if st.get("torn_at") is not None:
            c = copy.deepcopy(plan)
            c["steps"][k]["file"] = st["file"][:st["torn_at"]]
            c["steps"][k]["torn_at"] = None
            yield c
        if st.get("api") != "parser":
            c = copy.deepcopy(plan)
            c["steps"][k]["api"] = "parser"
            yield c
        text = st["file"]
        lines = text.split("\n")
        from ..minimise import chunk_removals
        if len(lines) > 1:
            for idx in chunk_removals(len(lines)):
                sset = set(idx)
                c = copy.deepcopy(plan)
                c["steps"][k]["file"] = "\n".join(l for j, l in enumerate(lines) if j not in sset)
                c["steps"][k]["torn_at"] = None if st.get("torn_at") is None else min(st["torn_at"], len(c["steps"][k]["file"]))
                yield c
        if len(text) <= 400:
            for idx in chunk_removals(len(text)):
                sset = set(idx)
                c = copy.deepcopy(plan)
                c["steps"][k]["file"] = "".join(ch for j, ch in enumerate(text) if j not in sset)
                c["steps"][k]["torn_at"] = None if st.get("torn_at") is None else min(st["torn_at"], len(c["steps"][k]["file"]))
                yield c

#!/bin/sh
# usage: tools/try_benign.sh <PROP> <patch.diff> [check-args...]   — a behaviour-preserving refactoring: the check must stay quiet
PROP=$1; PATCH=$2; shift 2
S=/tmp/bentry_$$
rm -rf $S && mkdir -p $S && git -C /repo archive HEAD | tar -x -C $S
cd $S && git init -q . 2>/dev/null && git apply --whitespace=nowarn "$PATCH" || { echo "PATCH DOES NOT APPLY"; rm -rf $S; exit 2; }
(cd $S && /venv/bin/python -m pytest -q -p no:cacheprovider --timeout=900 --continue-on-collection-errors 2>&1 | tail -1)
cd /verif && ./check $PROP --repo $S --no-evidence "$@" 2>&1 | grep -E "^violation|^VIOLATION|^HARNESS|runs=" | cut -c1-600
rm -rf $S

"""Unrelated earlier activity in the same process: a few objects are built, a handful of getters are called
and every container they hand out is edited in place by the "caller".  Module-level tables, default
arguments or internal lists that leak through return values get disturbed this way before the checked
workload starts; on correct code nothing that follows can notice."""
from .oracle_fork import scribble
from .gen import gen_seq

GETTERS = (("get_amino_acid_fractions", ()), ("get_reduced_alphabet_sequence", ()), ("get_reduced_alphabet_sequence", (20,)),
           ("get_reduced_alphabet_sequence", (8,)), ("get_all_phosphorylatable_sites", ()), ("get_phosphosites", ()),
           ("get_linear_NCPR", (3,)), ("get_linear_sequence_composition", (3,)), ("get_deltaMax", (True,)),
           ("get_full_phosphostatus_kappa_distribution", ()), ("get_linear_complexity", ()), ("get_phosphosequence", ()))


def noise_prelude(ctx, seed):
    import random
    from localcider.sequenceParameters import SequenceParameters
    rnd = random.Random(seed)
    n = 0
    for _ in range(rnd.randrange(1, 4)):
        o = SequenceParameters(gen_seq(rnd, rnd.randrange(12, 30)))
        for name, args in rnd.sample(GETTERS, rnd.randrange(2, 7)):
            try:
                v = getattr(o, name)(*args)
            except Exception:
                continue
            if scribble(v):
                n += 1
    ctx.probe("noise_prelude_scribbled_on_returned_containers", n)
    ctx.log.emit("noise", scribbled=n)

"""Self-tests of the machinery itself: determinism, sensitivity (mutants), seam audit."""
import json
import os
import shutil
import subprocess
import sys
import tempfile
import time

from . import runner
from .kernel import Streams, quiet_print as _quiet_print

VERIF = runner.VERIF
PROPS = ["C14", "C15", "C16", "C17", "C18", "C20"]


def _digests(pid, tier, seed, idxs, lanes):
    import importlib
    prop = importlib.import_module("dst.props." + pid.lower())
    jobs = [{"tag": "seed", "i": i} for i in idxs]
    out = {}
    for res in runner.run_jobs(prop, tier, seed, jobs, lanes, 300, None):
        out[str(res["i"])] = (res.get("digest"), res.get("outcome"))
    return out


def determinism(a, rest, seed):
    import shutil
    from .main import make_scratch
    base = make_scratch()
    try:
        return _determinism(a, rest, seed)
    finally:
        shutil.rmtree(base, ignore_errors=True)


def _determinism(a, rest, seed):
    n = int(os.environ.get("VERIF_DET_N") or 24)
    if "--emit" in rest:
        # child mode: print digests as JSON for the parent to compare
        runner.load_repo(a.repo)
        out = {}
        for pid in PROPS:
            out[pid] = _digests(pid, "quick", seed, range(n), a.lanes)
        print("DIGESTS " + json.dumps(out))
        return 0
    t0 = time.time()
    runner.load_repo(a.repo)
    report = {"seeds_per_property": n, "verif_seed": seed, "comparisons": [], "mismatches": []}
    base = {}
    for pid in PROPS:
        base[pid] = _digests(pid, "quick", seed, range(n), 16)
        again = _digests(pid, "quick", seed, range(n), 16)
        one = _digests(pid, "quick", seed, range(n), 1 if pid not in ("C18",) else 3)
        for name, other in (("same parent, second execution", again), ("1-3 lanes instead of 16", one)):
            bad = [i for i in base[pid] if base[pid][i] != other.get(i)]
            report["comparisons"].append({"property": pid, "against": name, "runs": len(base[pid]), "mismatches": len(bad)})
            for i in bad:
                report["mismatches"].append({"property": pid, "against": name, "run": i, "a": base[pid][i], "b": other.get(i)})
    for hs in ("7", "424242"):
        env = dict(os.environ, PYTHONHASHSEED=hs, VERIF_SEED=str(seed), VERIF_DET_N=str(n))
        p = subprocess.run([sys.executable, "-W", "ignore", os.path.join(VERIF, "dst", "main.py"), "selftest-determinism", "--repo", a.repo,
                            "--lanes", str(a.lanes), "--emit"], env=env, capture_output=True, text=True, timeout=3000)
        line = [l for l in p.stdout.splitlines() if l.startswith("DIGESTS ")]
        if not line:
            report["mismatches"].append({"against": "fresh interpreter PYTHONHASHSEED=" + hs, "error": (p.stdout + p.stderr)[-2000:]})
            continue
        other = json.loads(line[0][8:])
        for pid in PROPS:
            bad = [i for i in base[pid] if list(base[pid][i]) != list(other[pid].get(i, []))]
            report["comparisons"].append({"property": pid, "against": "fresh interpreter, PYTHONHASHSEED=" + hs, "runs": len(base[pid]), "mismatches": len(bad)})
            for i in bad:
                report["mismatches"].append({"property": pid, "against": "PYTHONHASHSEED=" + hs, "run": i, "a": base[pid][i], "b": other[pid].get(i)})
    report["wall_s"] = round(time.time() - t0, 1)
    report["base_hashseed"] = os.environ.get("PYTHONHASHSEED")
    os.makedirs(os.path.join(VERIF, "selftest"), exist_ok=True)
    with open(os.path.join(VERIF, "selftest", "determinism.json"), "w") as fh:
        json.dump(report, fh, indent=1, sort_keys=True)
    for c in report["comparisons"]:
        print("%s vs %-48s runs=%d mismatches=%d" % (c["property"], c["against"], c["runs"], c["mismatches"]))
    if report["mismatches"]:
        print("HARNESS-ERROR nondeterminism detected: %s" % json.dumps(report["mismatches"][:3]))
        return 3
    print("determinism self-test passed (%d comparisons, %.0fs)" % (len(report["comparisons"]), report["wall_s"]))
    return 0


def apply_mutant(root, rel, old, new):
    p = os.path.join(root, "localcider", rel)
    with open(p, newline="") as fh:
        s = fh.read()
    crlf = "\r\n" in s
    s = s.replace("\r\n", "\n")
    if s.count(old) < 1:
        raise RuntimeError("pattern not found in %s: %r" % (rel, old[:60]))
    s = s.replace(old, new)
    if crlf:
        s = s.replace("\n", "\r\n")
    with open(p, "w", newline="") as fh:
        fh.write(s)


def mutants(a, rest, seed):
    from .mutants import MUTANTS
    only = [x for x in rest if not x.startswith("-")]
    t0 = time.time()
    results = []
    scratch_root = tempfile.mkdtemp(prefix="dst_mut_", dir="/tmp")
    try:
        for pid, name, rel, old, new in MUTANTS:
            if only and pid not in only and name not in only:
                continue
            root = os.path.join(scratch_root, name)
            os.makedirs(root)
            shutil.copytree(os.path.join(a.repo, "localcider"), os.path.join(root, "localcider"),
                            ignore=shutil.ignore_patterns("__pycache__", "tests"))
            entry = {"property": pid, "mutant": name, "file": rel}
            try:
                apply_mutant(root, rel, old, new)
                t1 = time.time()
                env = dict(os.environ, VERIF_SEED=str(seed))
                p = subprocess.run([os.path.join(VERIF, "check"), pid, "--tier", "quick", "--repo", root, "--no-evidence"],
                                   env=env, capture_output=True, text=True, timeout=1800)
                vio = [l for l in p.stdout.splitlines() if l.startswith("VIOLATION ")]
                detail = [l for l in p.stdout.splitlines() if l.startswith("violation ")]
                entry.update(exit=p.returncode, detected=bool(p.returncode == 1 and vio), wall_s=round(time.time() - t1, 1),
                             violation=(detail[0][:300] if detail else None))
                # keep nothing: replay files of mutants are removed
                for l in vio:
                    rp = l.split("replay=")[-1].strip()
                    if os.path.exists(rp):
                        os.remove(rp)
            except Exception as e:
                entry.update(detected=False, error=repr(e))
            shutil.rmtree(root, ignore_errors=True)
            results.append(entry)
            print("%-4s %-40s %s  %s" % (pid, name, "DETECTED" if entry.get("detected") else "MISSED  ", (entry.get("violation") or entry.get("error") or "")[:150]))
            sys.stdout.flush()
    finally:
        shutil.rmtree(scratch_root, ignore_errors=True)
    rep = {"verif_seed": seed, "mutants": results, "detected": sum(1 for r in results if r.get("detected")), "total": len(results),
           "wall_s": round(time.time() - t0, 1), "repo": runner.repo_identity(a.repo)}
    if not only:
        with open(os.path.join(VERIF, "selftest", "mutants.json"), "w") as fh:
            json.dump(rep, fh, indent=1, sort_keys=True)
    print("mutants detected: %d / %d" % (rep["detected"], rep["total"]))
    return 0 if rep["detected"] == rep["total"] else 1


def seeded(a, rest, seed):
    """Regression over the independently produced changes kept under seeded/ (must be detected) and the
    behaviour-preserving refactorings kept under benign/ (the check must stay quiet).  Each patch is applied
    to a scratch copy of the repository's HEAD (never to /repo)."""
    only = [x for x in rest if not x.startswith("-")]
    t0 = time.time()
    scratch_root = tempfile.mkdtemp(prefix="dst_seeded_", dir="/tmp")
    results = []
    try:
        for kind in ("seeded", "benign"):
            base = os.path.join(VERIF, kind)
            for name in sorted(os.listdir(base)):
                d = os.path.join(base, name)
                if not os.path.isfile(os.path.join(d, "patch.diff")):
                    continue
                if only and name not in only and kind not in only and name.split("-")[0] not in only:
                    continue
                pid = name.split("-")[0]
                try:
                    with open(os.path.join(d, "meta.json")) as fh:
                        meta = json.load(fh)
                except Exception:
                    meta = {}
                if meta.get("expect") == "not_decided":
                    print("%-7s %-7s skipped   (recorded as not decided: %s)" % (kind, name, meta.get("why_not_decided", "")[:90]))
                    continue
                pid = meta.get("detecting_check", pid)
                root = os.path.join(scratch_root, kind + "_" + name)
                os.makedirs(root)
                entry = {"id": name, "kind": kind, "property": pid}
                try:
                    arch = subprocess.run("git -C %s archive HEAD | tar -x -C %s" % (a.repo, root), shell=True, capture_output=True, text=True, timeout=120)
                    subprocess.run(["git", "init", "-q", "."], cwd=root, capture_output=True, timeout=60)
                    ap = subprocess.run(["git", "apply", "--whitespace=nowarn", os.path.join(d, "patch.diff")], cwd=root, capture_output=True, text=True, timeout=60)
                    if ap.returncode != 0:
                        raise RuntimeError("patch does not apply to HEAD: " + ap.stderr[-300:])
                    t1 = time.time()
                    env = dict(os.environ, VERIF_SEED=str(seed))
                    p = subprocess.run([os.path.join(VERIF, "check"), pid, "--tier", "quick", "--repo", root, "--no-evidence"],
                                       env=env, capture_output=True, text=True, timeout=1800)
                    if kind == "benign" and "--cross" in rest and p.returncode == 0:
                        # a refactoring made for one property must not upset the checks of the others either
                        for other in PROPS:
                            if other == pid:
                                continue
                            q = subprocess.run([os.path.join(VERIF, "check"), other, "--tier", "quick", "--repo", root, "--no-evidence",
                                                "--runs", "120" if other == "C18" else "400"], env=env, capture_output=True, text=True, timeout=1800)
                            if q.returncode != 0:
                                entry["cross_alarm"] = other
                                p = q
                                break
                    vio = [l for l in p.stdout.splitlines() if l.startswith("VIOLATION ")]
                    detail = [l for l in p.stdout.splitlines() if l.startswith("violation ")]
                    harness = [l for l in p.stdout.splitlines() if l.startswith("HARNESS-ERROR")]
                    entry.update(exit=p.returncode, wall_s=round(time.time() - t1, 1), violation=(detail[0][:240] if detail else None),
                                 harness_error=(harness[0][:240] if harness else None))
                    if kind == "seeded":
                        entry["ok"] = bool(p.returncode == 1 and vio)
                    else:
                        entry["ok"] = bool(p.returncode == 0 and not vio)
                    for l in vio:
                        rp = l.split("replay=")[-1].strip()
                        if os.path.exists(rp):
                            os.remove(rp)
                except Exception as e:
                    entry.update(ok=False, error=repr(e))
                shutil.rmtree(root, ignore_errors=True)
                results.append(entry)
                print("%-7s %-7s %s  %s" % (kind, name, ("detected" if kind == "seeded" else "quiet   ") if entry.get("ok") else "WRONG   ",
                                             (entry.get("violation") or entry.get("error") or entry.get("harness_error") or "")[:140]))
                sys.stdout.flush()
    finally:
        shutil.rmtree(scratch_root, ignore_errors=True)
    rep = {"verif_seed": seed, "results": results, "seeded_detected": sum(1 for r in results if r["kind"] == "seeded" and r.get("ok")),
           "seeded_total": sum(1 for r in results if r["kind"] == "seeded"),
           "benign_quiet": sum(1 for r in results if r["kind"] == "benign" and r.get("ok")),
           "benign_total": sum(1 for r in results if r["kind"] == "benign"), "wall_s": round(time.time() - t0, 1), "repo": runner.repo_identity(a.repo)}
    if not only or only == ["benign"]:
        with open(os.path.join(VERIF, "selftest", "seeded.json" if not only else "benign_cross.json"), "w") as fh:
            json.dump(rep, fh, indent=1, sort_keys=True)
    print("seeded changes detected: %d / %d   benign refactorings quiet: %d / %d" % (rep["seeded_detected"], rep["seeded_total"], rep["benign_quiet"], rep["benign_total"]))
    return 0 if all(r.get("ok") for r in results) else 1


def seam_audit(a, rest, seed):
    """Backs the not-applicable list: every API named by C01-C13 is executed once with all seams
    armed to record access; reports clock/RNG/FS events and attribute writes per call."""
    runner.load_repo(a.repo)
    from .kernel import Ctx
    from .clock import SimClock
    from .rng import RngModule, TapeRandom, UniformDriver
    from .simfs import SimFS
    import localcider.backend.sequence as seqmod
    import localcider.backend.wang_landau as wl
    import localcider.backend.seqfileparser as sfp
    import localcider.sequenceParameters as spmod
    from localcider.sequenceParameters import SequenceParameters
    import numpy as np
    ctx = Ctx(Streams("audit", seed, 0))
    clock = SimClock(ctx, ctx.streams.stream("clock"))
    drv = UniformDriver(ctx.streams.stream("tape"))
    seqmod.time = clock
    wl.t = wl.time = clock
    seqmod.rng = RngModule(lambda: TapeRandom("move", ctx, drv, 10 ** 6))
    wl.rng = RngModule(lambda: TapeRandom("wl", ctx, drv, 10 ** 6))
    fs = SimFS(ctx)
    sfp.open = fs.open
    wl.open = fs.open
    spmod.print = _quiet_print
    calls = {
        "C01": [("get_kappa", [], {}), ("get_deltaMax", [], {}), ("get_delta", [], {})],
        "C02": [("get_delta", [], {}), ("get_linear_sigma", [5], {})],
        "C03": [("get_deltaMax", [], {}), ("get_deltaMax", [True], {})],
        "C04": [("get_mean_hydropathy", [], {}), ("get_uversky_hydropathy", [], {}), ("get_WW_hydropathy", [], {}), ("get_PPII_propensity", [], {}),
                ("get_molecular_weight", [], {}), ("get_amino_acid_fractions", [], {}), ("get_fraction_disorder_promoting", [], {})],
        "C05": [("get_FCR", [], {}), ("get_NCPR", [], {}), ("get_kappa", [], {}), ("get_SCD", [], {})],
        "C06": [("get_Omega", [], {}), ("get_Omega_sequence", [], {}), ("get_kappa_X", [["E", "D"], ["K", "R"]], {})],
        "C07": [("get_SCD", [], {})],
        "C08": [("get_phasePlotRegion", [], {})],
        "C09": [("get_FCR", [5.5], {}), ("get_NCPR", [5.5], {}), ("get_mean_net_charge", [7.0], {}), ("get_fraction_expanding", [3.0], {}), ("get_isoelectric_point", [], {})],
        "C10": [("get_linear_NCPR", [5], {}), ("get_linear_FCR", [5], {}), ("get_linear_sigma", [5], {}), ("get_linear_hydropathy", [5], {})],
        "C11": [("get_linear_sequence_composition", [5], {}), ("get_linear_complexity", [], {"complexityType": "WF"}),
                ("get_linear_complexity", [], {"complexityType": "LC"}), ("get_linear_complexity", [], {"complexityType": "LZW"})],
        "C12": [("get_reduced_alphabet_sequence", [8], {}), ("get_reduced_alphabet_sequence", [2], {})],
        "C13": [("__init__", [], {})],
    }
    memo_attrs = ("dmax", "seqDeltaMax")
    report = {}
    for pid in sorted(calls):
        rows = []
        for name, args, kw in calls[pid]:
            o = SequenceParameters("MKEGSTYKEDDRRGSPAAKEGSDEKRKLLPEGS")
            before = {k: repr(v) for k, v in vars(o.SeqObj).items()}
            e0 = (clock.reads, ctx.counters.get("draws_move", 0) + ctx.counters.get("draws_wl", 0), fs.nevents)
            if name == "__init__":
                try:
                    SequenceParameters("MKEG STY")
                    SequenceParameters("MKEGXSTY")
                except Exception:
                    pass
            else:
                getattr(o, name)(*args, **kw)
            e1 = (clock.reads, ctx.counters.get("draws_move", 0) + ctx.counters.get("draws_wl", 0), fs.nevents)
            after = {k: repr(v) for k, v in vars(o.SeqObj).items()}
            changed = sorted(k for k in after if after[k] != before.get(k))
            rows.append({"call": name, "clock_reads": e1[0] - e0[0], "rng_draws": e1[1] - e0[1], "fs_events": e1[2] - e0[2],
                         "attributes_written": [k for k in changed if k not in memo_attrs],
                         "memo_written": [k for k in changed if k in memo_attrs]})
        report[pid] = rows
    bad = [(p, r) for p in report for r in report[p] if r["clock_reads"] or r["rng_draws"] or r["fs_events"] or r["attributes_written"]]
    out = {"note": "every API named by the not-applicable properties executed once with all seams armed; memo_written lists the delta-max memo (C15's subject)",
           "calls": report, "seam_or_state_access": len(bad)}
    with open(os.path.join(VERIF, "selftest", "seam_audit.json"), "w") as fh:
        json.dump(out, fh, indent=1, sort_keys=True)
    print("seam audit: %d calls, %d touched a seam or wrote a non-memo attribute" % (sum(len(v) for v in report.values()), len(bad)))
    for p, r in bad:
        print("  ", p, r)
    return 0


def main(what, a, rest, seed):
    if what == "selftest-determinism":
        return determinism(a, rest, seed)
    if what == "selftest-mutants":
        return mutants(a, rest, seed)
    if what == "selftest-seeded":
        return seeded(a, rest, seed)
    if what == "selftest-seam-audit":
        return seam_audit(a, rest, seed)
    print("unknown selftest %r" % what)
    return 2

"""Kernel of the deterministic simulator: seed streams, event log, outcome classes.

One integer (the run seed) decides everything that happens in a run.  Named
sub-streams are derived by hashing, so adding a stream never shifts another.
Nothing in here reads a real clock or an unseeded PRNG.
"""
import hashlib
import json
import math
import random


def derive(material):
    return int.from_bytes(hashlib.sha256(material.encode("utf-8")).digest()[:8], "big")


class Streams(object):
    def __init__(self, prop, verif_seed, index):
        self.prop = prop
        self.verif_seed = int(verif_seed)
        self.index = int(index)
        self.run_seed = derive("%s|%d|%d" % (prop, self.verif_seed, self.index))

    @classmethod
    def from_run_seed(cls, prop, run_seed):
        s = cls.__new__(cls)
        s.prop = prop
        s.verif_seed = -1
        s.index = -1
        s.run_seed = int(run_seed)
        return s

    def stream(self, name):
        return random.Random(derive("%d|%s" % (self.run_seed, name)))


def canon(x):
    """JSON-able canonical form: floats by repr, numpy scalars/arrays unwrapped,
    sets sorted, tuples as lists, exceptions by type name."""
    try:
        import numpy as np
    except Exception:  # pragma: no cover
        np = None
    if x is None or isinstance(x, (bool, str)):
        return x
    if isinstance(x, int):
        return x
    if isinstance(x, float):
        return {"f": repr(float(x))}          # float() first: np.float64 is a float subclass with its own repr
    if np is not None:
        if isinstance(x, np.bool_):
            return bool(x)
        if isinstance(x, np.integer):
            return int(x)
        if isinstance(x, np.floating):
            return {"f": repr(float(x))}
        if isinstance(x, np.ndarray):
            return {"nd": list(x.shape), "v": [canon(v) for v in x.ravel().tolist()]}
    if isinstance(x, (list, tuple)):
        return [canon(v) for v in x]
    if isinstance(x, (set, frozenset)):
        return {"set": sorted((canon(v) for v in x), key=lambda v: json.dumps(v, sort_keys=True))}
    if isinstance(x, dict):
        return {"d": sorted(([canon(k), canon(v)] for k, v in x.items()),
                            key=lambda kv: json.dumps(kv[0], sort_keys=True))}
    if isinstance(x, BaseException):
        return {"exc": type(x).__name__}
    return {"obj": type(x).__name__}


def cjson(x):
    return json.dumps(x, sort_keys=True, separators=(",", ":"))


class EventLog(object):
    """Globally numbered event log with an incremental digest."""

    KEEP = 400

    def __init__(self):
        self.n = 0
        self._h = hashlib.sha256()
        self.tail = []
        self.kinds = {}

    def emit(self, _kind, **fields):
        kind = _kind
        self.n += 1
        rec = [self.n, kind, fields]
        line = cjson(rec)
        self._h.update(line.encode("utf-8"))
        self._h.update(b"\n")
        self.kinds[kind] = self.kinds.get(kind, 0) + 1
        self.tail.append(line)
        if len(self.tail) > self.KEEP:
            del self.tail[: self.KEEP // 2]
        return self.n

    def digest(self):
        return self._h.hexdigest()


class Violation(BaseException):
    """The property is broken on the real code.  kind = violation class,
    key = call site / condition used for matching known findings."""

    def __init__(self, kind, key, msg):
        BaseException.__init__(self, "%s [%s] %s" % (kind, key, msg))
        self.kind = kind
        self.key = key
        self.msg = msg


class Budget(BaseException):
    """A bounded-liveness cap was hit where the property promises no bound."""


class Discard(BaseException):
    """The run entered a documented ambiguity window of the oracle."""


class SimCrash(BaseException):
    """Injected process crash: unwinds everything, the simulated disk survives."""


class DrawCap(BaseException):
    """The per-instance cap on RNG draws was exceeded (hang protection)."""


class Ctx(object):
    """Per-run context: log, counters, probes, signatures."""

    def __init__(self, streams):
        self.streams = streams
        self.log = EventLog()
        self.counters = {}
        self.probes = {}
        self.faults = {}
        self.sigs = set()
        self.known = {}
        self.sim_seconds = 0.0
        self.nontrivial = False

    def count(self, name, n=1):
        self.counters[name] = self.counters.get(name, 0) + n

    def probe(self, name, n=1):
        self.probes[name] = self.probes.get(name, 0) + n

    def fault(self, name, n=1):
        self.faults[name] = self.faults.get(name, 0) + n

    def sig(self, *parts):
        if len(self.sigs) < 400:
            self.sigs.add("|".join(str(p) for p in parts))


def feq(a, b, rel=1e-9, ab=1e-12):
    if a == b:
        return True
    try:
        if math.isnan(a) and math.isnan(b):
            return True
    except TypeError:
        return False
    return abs(a - b) <= max(ab, rel * max(abs(a), abs(b)))


def quiet_print(*a, **k):
    """stands in for `print` in the library modules: progress chatter to the terminal is dropped, anything printed
    *to a file* (a maintainer may well write log lines with print(..., file=handle)) goes where it was sent"""
    import builtins
    import sys
    f = k.get("file")
    if f is None or f is sys.stdout or f is sys.stderr or f is sys.__stdout__ or f is sys.__stderr__:
        return None
    return builtins.print(*a, **k)

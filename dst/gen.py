"""Seeded generators shared by the property modules (sequences, classes)."""

AA = "ACDEFGHIKLMNPQRSTVWY"
POS = "KR"
NEG = "DE"
NEUT = "ACFGHILMNPQSTVWY"

CLASSES = ("idp", "polyampholyte", "polyelectrolyte", "lowcomplexity", "nocharge", "uniform",
           "sty_rich", "onecharge")


# arrangements whose delta exceeds the delta-max the heuristic finds for their composition:
# raw kappa in (1, 1.1) (clamped to exactly 1 by kappa()) and above 1.1 (returned as is)
KAPPA_CLAMPED = ['PSEDDS', 'SKGRKP', 'GEEGEG', 'GGKKKG', 'GKKKGG', 'KEEGEEK', 'DKEKKKE', 'KEEEKEK', 'EGGGGGE', 'KDKEEDK', 'EKKKDKE', 'KGPGSPR',
                 'KEKDDDK', 'GEEEEEG', 'EKGKKSE', 'EKKKGGE', 'KGGGGGK', 'ERERRRE', 'KGEEGEK', 'KESEEGK', 'EKKGKKE', 'REDDPDR', 'GPKKRKPP',
                 'EEGKKKKG', 'KRESDDER', 'EGSKKKKS', 'EKKKKKSE', 'EESKKKKKE', 'EERKRRRKEE', 'ERKRKRREEE', 'KKKDDEDEEK', 'EEEKRRRKKKKKKE']
KAPPA_ABOVE = ['KEEGEK', 'KEEEGK', 'KEDDEK', 'KEEEEK', 'GKKKKG', 'KEEDDK', 'ERKRRE', 'EKKKKD', 'REEEER', 'EGGGGE', 'ERKKRE', 'KGGGGK', 'KDDDDK',
               'RSPPPK', 'KEDEEK', 'GEEEEG', 'KEEEER', 'REDEDR', 'KGEEEEK', 'KDEDEEK', 'KDDEDKK', 'KEDDDEK', 'EERRRRE', 'EEKRKRE', 'KGEDDEK']


def gen_special(rnd):
    return rnd.choice(KAPPA_CLAMPED + KAPPA_CLAMPED + KAPPA_ABOVE)


def same_classes_other_letters(rnd, s):
    """a different sequence with the same numbers of positive, negative and neutral residues"""
    out = []
    for c in s:
        if c in POS:
            out.append(rnd.choice(POS))
        elif c in NEG:
            out.append(rnd.choice(NEG))
        else:
            out.append(rnd.choice(NEUT))
    rnd.shuffle(out)
    t = "".join(out)
    if sorted(t) == sorted(s):
        i = next((j for j, c in enumerate(t) if c not in POS + NEG), None)
        if i is not None:
            t = t[:i] + ("A" if t[i] != "A" else "G") + t[i + 1:]
        else:
            t = t[:0] + ("R" if t[0] == "K" else "K" if t[0] == "R" else "D" if t[0] == "E" else "E") + t[1:]
    return t


def gen_seq(rnd, n, cls=None):
    if cls is None:
        cls = rnd.choice(CLASSES)
    if cls == "idp":
        alpha = "GSPQNEKDRTA" * 3 + AA
    elif cls == "polyampholyte":
        alpha = "KKKEEEDDRRG" + "S"
    elif cls == "polyelectrolyte":
        alpha = rnd.choice(("KKKKRRRGS", "EEEEDDDGS", "KKKKKKKKE", "EEEEEEEEK"))
    elif cls == "lowcomplexity":
        k = rnd.randrange(1, 4)
        alpha = "".join(rnd.choice(AA) for _ in range(k))
    elif cls == "nocharge":
        alpha = NEUT
    elif cls == "sty_rich":
        alpha = "SSTTYY" + "GKEA"
    elif cls == "onecharge":
        alpha = rnd.choice(POS + NEG) + NEUT[:rnd.randrange(1, 6)]
    else:
        alpha = AA
    return "".join(rnd.choice(alpha) for _ in range(n))


def seq_class_of(s):
    p = sum(1 for c in s if c in POS)
    m = sum(1 for c in s if c in NEG)
    if p == 0 and m == 0:
        return "nocharge"
    if p == 0 or m == 0:
        return "onesign"
    if p + m == len(s):
        return "allcharged"
    return "mixed"


def weighted(rnd, pairs):
    tot = sum(w for _, w in pairs)
    x = rnd.random() * tot
    for v, w in pairs:
        x -= w
        if x < 0:
            return v
    return pairs[-1][0]

#!/usr/bin/env python3
"""Regenerates /verif/MANIFEST.json from the table below (kept in one place so it stays valid)."""
import json, os, sys
HERE = os.path.dirname(os.path.dirname(os.path.abspath(__file__)))

BUILT = sys.argv[1].split(",") if len(sys.argv) > 1 else ["C14", "C15", "C16", "C17", "C18", "C20"]

CHECKS = {
 "C14": dict(cat="exploration", ref="DESIGN.md §4.5",
   text="Seeded simulation of a writer laying sequence files out on a simulated disk (a fault-injecting layer over real scratch files; incl. torn writes and single-character corruptions) and of the reader fetching them through CPython's real text/buffer layers over a simulated raw device with short reads, EIO and open errors; every parse is compared with an independent grammar-level reference parser applied to the bytes on the simulated disk (open handles are counted as a probe, not a verdict). Sampling, not proof.",
   note="Trusts the reference parser (written from the statement), CPython's io stack (real Text/Buffered layers over a fault-injecting raw layer on real scratch files), and that ambiguous layouts (whitespace at line ends, characters some splitters treat as line boundaries, BOM, lone CR, non-ASCII digits, empty result) are outside the statement: they are DISCARDED, not judged; a file with lower-case residue letters may be rejected or must parse to exactly the upper-cased residues. Reader-side faults (short reads, EIO, open errors) pass through the parser module's `open` name: a tree that reads the file through os.read or pathlib is still judged on its results, but those faults do not reach it (DESIGN.md §11.9).",
   tech="deterministic simulation: simulated disk + fault-injected reads vs reference parser"),
 "C15": dict(cat="exploration", ref="DESIGN.md §4.3",
   text="Seeded scheduler interleaves read-only queries (valid and failing) from several live objects; every returned value is compared bit-for-bit with the same call on a fresh object in a pristine forked interpreter that has only replayed the object's mutators. Sampling of histories, not proof.",
   note="Trusts fork() to give a pristine interpreter image and the canonicalisation of values; calls are atomic (no pre-emption inside a call).",
   tech="deterministic simulation: seeded call-history interleaving vs pristine-fork oracle"),
 "C16": dict(cat="exploration", ref="DESIGN.md §4.4",
   text="Seeded histories of set/clear_phosphosites with hostile positions (each a failed operation that must leave no trace) interleaved with the observers over several live objects; a 15-line reference model of the site list is checked after every operation and derived values are recomputed by the real code on the substituted string.",
   note="Trusts the reference model and that kappa/FCR/... of a fresh object on the substituted string are the intended values (their correctness is other properties' business).",
   tech="deterministic simulation: seeded operation histories vs reference model"),
 "C17": dict(cat="exploration", ref="DESIGN.md §4.2",
   text="The clock that seeds every move's RNG and the RNG itself (tape-driven random.Random, incl. boundary-biased tapes) are owned by the simulator; seeded chains of moves over several live objects with frozen sets and warm/cold delta-max caches are checked after every move for rearrangement, frozen sites, bookkeeping equal to a fresh object, parent untouched, and bounded draws (liveness).",
   note="Trusts that CPython's sample/shuffle/randint are built on random/getrandbits/_randbelow (verified on 3.12); permute_cluster_charges non-termination is counted as BUDGET, not as a violation.",
   tech="deterministic simulation: simulated clock + RNG tapes, seeded move chains"),
 "C18": dict(cat="exploration", ref="DESIGN.md §4.1",
   text="Whole Wang-Landau runs execute under a simulator that owns both RNGs (adversarial acceptance draws placed relative to the model's acceptance probability), the clock and the log directory (a fault-injecting layer over real scratch files: EIO/ENOSPC/open errors, crash with torn write, restart into the dirty directory); an independent lock-step WL bookkeeping model is compared after every step (hook records, numerically parsed log rows) and on the final outputs of every run that returns normally.",
   note="Trusts the reference model, the real Sequence.kappa as bin oracle, and the guarded per-step hook (falls back to seam-only observation when the hook is absent). Runs are capped; convergence within the cap is not required. A run that returns normally is held to complete agreement of all outputs; nothing is asserted about the disk of a run that failed after an injected fault. Runs whose draw pattern the RNG seam cannot follow are DISCARDED; where an implementation draws its acceptance numbers outside the seam, decisions are followed from the hook record and their frequencies tested with a Bernstein bound (alarm only below 1e-12).",
   tech="deterministic simulation with fault injection: RNG tapes, simulated clock and disk, lock-step reference model"),
 "C20": dict(cat="fault_enumeration", ref="DESIGN.md §4.6",
   text="Histories of palette updates in which the update fails at every possible step of its 20-step validation loop (all 20x2 failure points enumerated, plus seeded histories) interleaved with renders over several live objects; checked against a reference palette and a structural reference renderer after every operation.",
   note="Trusts the structural HTML parser in the oracle; capitalised colour names not generated (docstring and code disagree).",
   tech="deterministic simulation: seeded update/render histories with failures injected at each validation step"),
}

NA = {
 "C01": "pure function of the input string (ratio, clamp, sentinel): no schedule, clock, RNG, I/O or surviving state for a simulator to control; deciding it is input-space search, not simulation",
 "C02": "sigma/deltaForm/delta are loops over the charge pattern only; no seam is touched and nothing is written",
 "C03": "deltaMax enumerates a fixed candidate family determined by (n+, n-, n0); its memo only matters across calls, which is C15's subject",
 "C04": "table look-ups and sums over residues; the tables are literals rebuilt per call",
 "C05": "metamorphic relations between outputs of pure functions on two inputs",
 "C06": "Omega/kappa_X recode the string and call kappa on a new object; group parsing is a pure validator",
 "C07": "sequence_charge_decoration is a double loop over the charge pattern, nothing else",
 "C08": "threshold cascade on (n+, n-, N); deterministic float comparisons",
 "C09": "Henderson-Hasselbalch sums and a deterministic bisection whose only input is the string; no fault or timing enters",
 "C10": "sliding-window loops over the charge pattern / hydropathy list; no state, no seam",
 "C11": "per-window counting (sets used for membership/size only); positions are integer arithmetic",
 "C12": "literal residue tables and validation of a dict argument; pure",
 "C13": "constructor validation is a character whitelist over the argument",
 "C19": "plot coordinates/titles/limits are functions of the arguments; the only state is pyplot's current figure whose lifetime the API hands to the caller, and the file is written by matplotlib/PIL, so injected I/O faults would exercise matplotlib rather than localCIDER",
}
PENDING = "simulation target (see DESIGN.md §4); its check is not built yet in this commit, so it is not claimed here"

m = {
 "version": 1,
 "setup_cmd": "./setup.sh",
 "hooks": {
   "guard": "LOCALCIDER_VERIF",
   "enable": "pure Python, nothing to build: checks put the repo's working tree first on sys.path and set LOCALCIDER_VERIF=1 in the environment before importing localcider; the harness then registers localcider.backend.wang_landau._VERIF_HOOK",
   "baseline_off_cmd": "cd /repo && env -u LOCALCIDER_VERIF /venv/bin/python -m pytest -ra -q -p no:cacheprovider --timeout=900 --continue-on-collection-errors",
   "source_commits": ["780081c"],
   "add_only": True,
 },
 "engines": [{"name": "dst", "path": "dst/", "serves_properties": BUILT,
              "kind_free_text": "hand-written deterministic simulator for a single-process Python library: seeded plan/fault streams, SimClock, tape RNG, SimFS, hermetic fork per run, event-log digests, ddmin-style minimiser, replay files"}],
 "checks": [],
 "not_applicable": [],
 "notes": "Technique family: deterministic simulation with fault injection. Every check runs its directed corpus, the seeded swarm, a determinism sample (same run twice in different workers) and a final pass under `python -O`. 14 of the 20 properties are pure input->output statements and are listed under not_applicable with the reason (DESIGN.md §5). Exit codes: 0 held / 1 VIOLATION / 3 HARNESS-ERROR (never read as a pass). Fixed genuine defects and open known findings are in known_findings.json.",
}
for pid in sorted(CHECKS):
    c = CHECKS[pid]
    if pid in BUILT:
        m["checks"].append({
            "property_id": pid,
            "quick_cmd": "./check %s --tier quick" % pid,
            "thorough_cmd": "./check %s --tier thorough" % pid,
            "evidence_file": "evidence/%s.json" % pid,
            "replay_cmd_template": "./check %s --replay {path}" % pid,
            "engine": "dst",
            "level_claimed": {"category": c["cat"], "text": c["text"], "design_ref": c["ref"]},
            "level_note": c["note"],
            "technique": c["tech"],
        })
    else:
        m["not_applicable"].append({"property_id": pid, "reason": PENDING})
for pid in sorted(NA):
    m["not_applicable"].append({"property_id": pid, "reason": NA[pid]})
m["not_applicable"].sort(key=lambda e: e["property_id"])
with open(os.path.join(HERE, "MANIFEST.json"), "w") as fh:
    json.dump(m, fh, indent=1)
print("MANIFEST.json: %d checks, %d not_applicable" % (len(m["checks"]), len(m["not_applicable"])))

"""Sensitivity self-test table: small source mutations that break a property while the
package still imports and the pinned test suite still passes.  Applied to a scratch copy
of /repo/localcider under a temp dir (never to /repo)."""

S = "backend/sequence.py"
W = "backend/wang_landau.py"
F = "backend/seqfileparser.py"

MUTANTS = [
    # ---- C14
    ("C14", "line_not_stripped", F, "            line = line.strip()", "            line = line"),
    ("C14", "digit_zero_not_skipped", F, 'elif i in "1234567890":', 'elif i in "123456789":'),
    ("C14", "second_header_accepted", F, "                if header:", "                if False:"),
    ("C14", "two_stars_accepted", F, "        if number_of_asterisk > 1:", "        if number_of_asterisk > 2:"),
    ("C14", "nonfinal_star_accepted", F, 'if seq[-1] == "*":', 'if seq[-1] == "*" or True:'),
    ("C14", "oserror_swallowed_partial_result", F, "            content = filehandle.readlines()",
     "            content = []\n            try:\n                for l in filehandle: content.append(l)\n            except OSError: pass"),
    ("C14", "first_line_only", F, "            content = filehandle.readlines()", "            content = [filehandle.readline()] + filehandle.readlines()[0:50]"),
    # ---- C15
    ("C15", "deltamax_permutant_not_recomputed", S, "        if returnSeqDeltaMax and self.seqDeltaMax is None:\n          self.dmax = -1\n", ""),
    ("C15", "composition_default_grows", S, "        if len(grps) > 0:\n\n            # then skip ahead...", "        if len(grps) > 7:\n\n            # then skip ahead..."),
    ("C15", "kappa_memo_keyed_by_length", S, "        if self.deltaMax() == 0:",
     "        global _KC\n        try: _KC\n        except NameError: _KC = {}\n        if self.len > 25 and (self.len, self.countPos()) in _KC: return _KC[(self.len, self.countPos())]\n"
     "        _KC[(self.len, self.countPos())] = (self.delta() / self.deltaMax()) if self.deltaMax() else -1\n        if self.deltaMax() == 0:"),
    ("C15", "omega_leaks_dmax", S, "        augmented_seq = Sequence(newseq)\n\n        return augmented_seq.kappa()\n\n\n    #...................................................................................#\n    def Omega_seq",
     "        augmented_seq = Sequence(newseq)\n        k = augmented_seq.kappa()\n        self.dmax = augmented_seq.dmax\n        return k\n\n\n    #...................................................................................#\n    def Omega_seq"),
    # ---- C16
    ("C16", "out_of_range_falls_through", S, '                                " is outside sequence range. Skipping...")\n                continue', '                                " is outside sequence range. Skipping...")\n                pass'),
    ("C16", "duplicates_kept", S, "                if idx in self.phosphosites:", "                if False:"),
    ("C16", "upper_bound_off_by_one", S, "            if idx >= len(self.seq) or idx < 0:", "            if idx >= len(self.seq) - 1 or idx < 0:"),
    ("C16", "phosphosequence_uses_D", S, '                pseq = pseq + "E"', '                pseq = pseq + "D"'),
    ("C16", "distribution_reversed_sites", S, "                    newseq[self.phosphosites[indx]] = \"E\"", "                    newseq[self.phosphosites[len(self.phosphosites) - 1 - indx]] = \"E\""),
    ("C16", "clear_keeps_first_site", S, "        self.phosphosites = []\n\n    #...................................................................................#\n    def calculateKappaDistOfPhosphoStates",
     "        self.phosphosites = self.phosphosites[3:]\n\n    #...................................................................................#\n    def calculateKappaDistOfPhosphoStates"),
    # ---- C17
    ("C17", "swapres_aliases_parent_pattern", S, "        tempChargeSeq = cp.deepcopy(self.chargePattern)", "        tempChargeSeq = self.chargePattern"),
    ("C17", "charge_swap_ignores_frozen_positive", S, "        posInd = set(np.where(self.chargePattern > 0)[0]) - frozen", "        posInd = set(np.where(self.chargePattern > 0)[0])"),
    ("C17", "wrong_carried_dmax", S, '        return Sequence("".join(new_seq), self.dmax)', '        return Sequence("".join(new_seq), self.dmax if self.len > 12 else self.dmax*1.01)'),
    ("C17", "swapres_wrong_charge_at_distance_7", S, "        tempChargeSeq[index2] = charge1", "        tempChargeSeq[index2] = charge1 if index2 - index1 != 7 else charge2"),
    ("C17", "block_swap_duplicates_residue", S, "        newseq[min(blocks_to_swap[1]):max(blocks_to_swap[1])] = old_seq_list[min(blocks_to_swap[0]):max(blocks_to_swap[0])]",
     "        newseq[min(blocks_to_swap[1]):max(blocks_to_swap[1])] = old_seq_list[min(blocks_to_swap[0]):max(blocks_to_swap[0])] if block_size != 4 else old_seq_list[min(blocks_to_swap[1]):max(blocks_to_swap[1])]"),
    ("C17", "sample_from_set_again", S, "rand.sample(sorted(negInd), 1)", "rand.sample(negInd, 1)"),
    # ---- C18
    ("C18", "acceptance_exponent_sign", W, "np.exp(g[idx_old] - g[idx_new])", "np.exp(g[idx_new] - g[idx_old])"),
    ("C18", "accept_on_equality", W, "if(rand.random() < acceptProb):", "if(rand.random() <= acceptProb):"),
    ("C18", "uncounted_steps_counted", W, "            if not skip:\n                g[idx_old] = g[idx_old] + np.log(f)", "            if True:\n                g[idx_old] = g[idx_old] + np.log(f)"),
    ("C18", "f_halved", W, "f = f**0.5", "f = f/2"),
    ("C18", "flatness_strict", W, "np.mean(Hlocal) >= self.flatcrit)[0])", "np.mean(Hlocal) > self.flatcrit)[0])"),
    ("C18", "flat_against_all_bins", W, "if flatness_number == self.nbins_target:", "if flatness_number == self.nbins_actual:"),
    ("C18", "histogram_not_reset", W, "            # reset ALL the bins\n            H = [0] * self.nbins_actual", "            # reset ALL the bins"),
    ("C18", "mklog_appends", W, "        log = open(logfile, 'w')\n        log.write(initial)", "        log = open(logfile, 'a')\n        log.write(initial)"),
    ("C18", "dos_local_off_by_one", W, "        for i in range(self.relevant_min, self.relevant_max + 1):\n            dos.write", "        for i in range(self.relevant_min, self.relevant_max):\n            dos.write"),
    ("C18", "seqlog_kappa_of_proposal", W, "(oseq.kappa(), oseq))", "(knew, oseq))"),
    ("C18", "outside_range_sometimes_accepted", W, "                acceptProb = 0\n                skip = True\n\n            if _VERIF", "                acceptProb = 0.001\n                skip = True\n\n            if _VERIF"),
    ("C18", "relevant_max_off_by_one", W, "self.relevant_max = (self.relevant_min + self.nbins_target) - 1", "self.relevant_max = (self.relevant_min + self.nbins_target)"),
    ("C18", "g_updated_before_move", W, "                oseq = Sequence(nseq.seq, nseq.dmax, nseq.chargePattern)\n                kold = oseq.kappa()\n                idx_old = np.argmin(abs(bincts - kold))\n\n                # reset the new sequence and new sequence histogram index\n                nseq = None\n                idx_new = 0\n\n            # if we do not accept the move\n            else:\n                nseq = None\n                idx_new = 0\n            # END OF ACCEPTANCE REGION",
     "                oseq = Sequence(nseq.seq, nseq.dmax, nseq.chargePattern)\n                kold = oseq.kappa()\n                idx_keep = idx_old\n                idx_old = np.argmin(abs(bincts - kold))\n                if nstep % 17 == 16: idx_old = idx_keep\n\n                # reset the new sequence and new sequence histogram index\n                nseq = None\n                idx_new = 0\n\n            # if we do not accept the move\n            else:\n                nseq = None\n                idx_new = 0\n            # END OF ACCEPTANCE REGION"),
    ("C18", "continues_when_f_equals_threshold", W, "        while(f > self.convergence):\n\n            if nstep % self.dotdotfreq == 0:\n                running_dotdotdot()\n\n            # There are four possible", "        while(f >= self.convergence):\n\n            if nstep % self.dotdotfreq == 0:\n                running_dotdotdot()\n\n            # There are four possible"),
    ("C18", "dos_written_in_append_mode", W, '        dos = open(os.path.join(self.writeDir, "DOS.txt"), \'w\')', '        dos = open(os.path.join(self.writeDir, "DOS.txt"), \'a\')'),
    # ---- C20
    ("C20", "partial_commit_on_reject", S, "        valid = {}\n\n        # for each one letter amino acid code", "        valid = self.aminoAcidColorMap = getattr(self, 'aminoAcidColorMap', {})\n\n        # for each one letter amino acid code"),
    ("C20", "block_of_11", S, "            if(np.mod(count, 10) == 0):", "            if(np.mod(count, 11) == 0):"),
    ("C20", "colour_from_default_table", S, "            color = self.aminoAcidColorMap[residue]", "            color = aminoacids.DEFAULT_COLOR_PALETTE[residue] if count > 60 else self.aminoAcidColorMap[residue]"),
    ("C20", "no_colour_validation_for_last_keys", S, "            if colorDict[i] not in [", "            if i not in 'WY' and colorDict[i] not in ["),
    ("C20", "shared_default_table_mutated", S, "        self.aminoAcidColorMap = {}\n        for i in valid:\n            self.aminoAcidColorMap[i] = valid[i]",
     "        self.aminoAcidColorMap = {}\n        for i in valid:\n            self.aminoAcidColorMap[i] = valid[i]\n            aminoacids.DEFAULT_COLOR_PALETTE[i] = valid[i]"),
    ("C20", "line_break_every_60", S, "            if(np.mod(count, 50) == 0):", "            if(np.mod(count, 60) == 0):"),
]

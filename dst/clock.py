"""SimClock: the only clock the code under test reads.

Installed as the module attribute `time` (and `t`) of the localcider modules
that seed their RNGs from time.time().  Every read is an event.  Policies are
all sequences of values a real time.time() can return on some machine.
"""
import time as _real_time

MODES = ("normal", "stall", "coarse", "jump_fwd", "jump_back", "extreme", "mixed")


class SimClock(object):
    def __init__(self, ctx, rnd, mode="normal", trace=None):
        self.ctx = ctx
        self.rnd = rnd
        self.mode = mode
        self.reads = 0
        self.trace = trace          # recorded values for replay (list) or None
        self.recorded = []
        self.start = 1.6e9 + rnd.randrange(0, 10 ** 8) + rnd.random()
        if mode == "extreme":
            # corners of what a time.time() can return today; negative and post-2106 epochs are left out: they are not
            # readings of a real clock and common consumers (a 32-bit seed, e.g. numpy's RandomState) refuse them
            self.start = rnd.choice([0.0, 2.0 ** 31, 1.0, 1e-9, 2.0 ** 32 - 5000.0])
        self.now = self.start
        self.min_seen = self.now
        self.max_seen = self.now
        self.stall_left = 0

    def _advance(self):
        r = self.rnd
        m = self.mode
        if m == "mixed":
            m = r.choice(("normal", "normal", "stall", "coarse", "jump_fwd", "jump_back"))
        if m in ("normal", "extreme"):
            self.now += r.choice((1e-6, 1e-5, 1e-4, 1e-3, 1e-2)) * (1 + r.random())
        elif m == "stall":
            if self.stall_left > 0:
                self.stall_left -= 1
                self.ctx.fault("clock_stall")
            else:
                self.now += 1e-4 * (1 + r.random())
                if r.random() < 0.4:
                    self.stall_left = r.randrange(1, 6)
        elif m == "coarse":
            self.now += r.choice((0.0, 0.0, 0.3, 1.0))
            self.ctx.fault("clock_coarse")
            return float(int(self.now))
        elif m == "jump_fwd":
            if r.random() < 0.15:
                j = r.choice((3600.0, 86400.0, 86400.0 * 365 * 3))
                if self.now + j > 4.2e9:          # stay inside epochs that fit a 32-bit seed (see "extreme")
                    j = 3600.0 if self.now + 3600.0 < 4.29e9 else 0.0
                self.now += j
                self.ctx.fault("clock_jump_fwd")
            else:
                self.now += 1e-3
        elif m == "jump_back":
            if r.random() < 0.15:
                self.now -= r.choice((0.5, 3600.0, 86400.0))
                self.ctx.fault("clock_jump_back")
            else:
                self.now += 1e-3
        return self.now

    def __call__(self):
        # `from time import time` binds the module attribute `time` of the library to the function: the seam then
        # replaces a callable, so the clock is callable too
        return self.time()

    def time(self):
        self.reads += 1
        if self.trace is not None:
            v = self.trace[self.reads - 1] if self.reads - 1 < len(self.trace) else self.trace[-1] + 1e-3 * self.reads
        else:
            v = self._advance()
        self.recorded.append(v)
        self.min_seen = min(self.min_seen, v)
        self.max_seen = max(self.max_seen, v)
        self.ctx.log.emit("clock", v=repr(v))
        return v

    def covered(self):
        return float(self.max_seen - self.min_seen)

    # other readings of the clock: all derived from the simulated time()
    def time_ns(self):
        return int(self.time() * 1e9)

    def monotonic(self):
        return self.time() - self.start + 1000.0

    def perf_counter(self):
        return self.monotonic()

    def process_time(self):
        return self.monotonic() / 10.0

    def monotonic_ns(self):
        return int(self.monotonic() * 1e9)

    def perf_counter_ns(self):
        return int(self.monotonic() * 1e9)

    def sleep(self, seconds):
        self.now += max(0.0, float(seconds))     # simulated time jumps; nobody waits

    def __getattr__(self, name):
        # formatting helpers and constants (strftime, gmtime, struct_time, timezone ...) come from the real module
        self.ctx.probe("clock_other_attr_" + name)
        return getattr(_real_time, name)

#!/bin/sh
# Offline setup: nothing to build (pure Python). Verifies the interpreter and the imports the checks need.
set -e
cd "$(dirname "$0")"
PY=/venv/bin/python
$PY - <<'P'
import sys, os
sys.path.insert(0, "/repo")
import numpy, localcider
import localcider.sequenceParameters, localcider.sequencePermutants, localcider.backend.wang_landau
assert os.path.dirname(localcider.__file__).startswith("/repo"), localcider.__file__
print("setup ok: python %s numpy %s localcider from %s" % (sys.version.split()[0], numpy.__version__, localcider.__file__))
P
mkdir -p evidence replays
chmod +x check

"""Randomness that does not pass the simulator's seams.

The seams replace the names the library draws through today (`sequence.rng`, `wang_landau.rng`, ...).  A
refactored library may legitimately get its random numbers elsewhere: a helper module with its own `import
random`, numpy generators, the hidden global instance of `random`.  Those sources are seeded per run
(runner._seed_tempfile_names), so runs stay replayable, but draws from them are not on the tape, and an oracle
that attributes decisions to tape draws must not judge such a run.  `used()` tells whether any such source
was touched since `arm()`.
"""
import random
import sys

_STATE = {"n": 0, "installed": False, "py": None, "np": None}


def _note():
    _STATE["n"] += 1


def install():
    """once per forked run, before the library executes"""
    if _STATE["installed"]:
        return
    _STATE["installed"] = True
    orig_seed = random.Random.seed

    def seed(self, *a, **k):
        if not hasattr(self, "_who"):                    # not one of the simulator's own generators
            f = sys._getframe(1)
            while f is not None and f.f_code.co_filename.endswith("random.py"):
                f = f.f_back
            fn = f.f_code.co_filename if f is not None else ""
            if "/dst/" not in fn:
                _note()
        return orig_seed(self, *a, **k)
    random.Random.seed = seed
    try:
        import numpy as np
        orig_default = np.random.default_rng

        def default_rng(*a, **k):
            _note()
            return orig_default(*a, **k)
        default_rng._dst_wrapped = getattr(orig_default, "_dst_wrapped", False)
        np.random.default_rng = default_rng
    except Exception:
        pass


def arm():
    _STATE["n"] = 0
    _STATE["py"] = random.getstate()
    try:
        import numpy as np
        st = np.random.get_state()
        _STATE["np"] = (st[0], bytes(st[1]), st[2], st[3], st[4])
    except Exception:
        _STATE["np"] = None


def used():
    if _STATE["n"]:
        return True
    if _STATE["py"] is not None and random.getstate() != _STATE["py"]:
        return True
    if _STATE["np"] is not None:
        try:
            import numpy as np
            st = np.random.get_state()
            if (st[0], bytes(st[1]), st[2], st[3], st[4]) != _STATE["np"]:
                return True
        except Exception:
            pass
    return False

"""Seeded generators shared by the property modules (sequences, classes)."""

AA = "ACDEFGHIKLMNPQRSTVWY"
POS = "KR"
NEG = "DE"
NEUT = "ACFGHILMNPQSTVWY"

CLASSES = ("idp", "polyampholyte", "polyelectrolyte", "lowcomplexity", "nocharge", "uniform",
           "sty_rich", "onecharge")


# arrangements whose delta exceeds the delta-max the heuristic finds for their composition:
# raw kappa in (1, 1.1) (clamped to exactly 1 by kappa()) and above 1.1 (returned as is)
KAPPA_CLAMPED = ['PSEDDS', 'SKGRKP', 'GEEGEG', 'GGKKKG', 'GKKKGG', 'KEEGEEK', 'DKEKKKE', 'KEEEKEK', 'EGGGGGE', 'KDKEEDK', 'EKKKDKE', 'KGPGSPR',
                 'KEKDDDK', 'GEEEEEG', 'EKGKKSE', 'EKKKGGE', 'KGGGGGK', 'ERERRRE', 'KGEEGEK', 'KESEEGK', 'EKKGKKE', 'REDDPDR', 'GPKKRKPP',
                 'EEGKKKKG', 'KRESDDER', 'EGSKKKKS', 'EKKKKKSE', 'EESKKKKKE', 'EERKRRRKEE', 'ERKRKRREEE', 'KKKDDEDEEK', 'EEEKRRRKKKKKKE']
KAPPA_ABOVE = ['KEEGEK', 'KEEEGK', 'KEDDEK', 'KEEEEK', 'GKKKKG', 'KEEDDK', 'ERKRRE', 'EKKKKD', 'REEEER', 'EGGGGE', 'ERKKRE', 'KGGGGK', 'KDDDDK',
               'RSPPPK', 'KEDEEK', 'GEEEEG', 'KEEEER', 'REDEDR', 'KGEEEEK', 'KDEDEEK', 'KDDEDKK', 'KEDDDEK', 'EERRRRE', 'EEKRKRE', 'KGEDDEK']


def gen_special(rnd):
    return rnd.choice(KAPPA_CLAMPED + KAPPA_CLAMPED + KAPPA_ABOVE)


def same_classes_other_letters(rnd, s):
    """a different sequence with the same numbers of positive, negative and neutral residues"""
    out = []
    for c in s:
        if c in POS:
            out.append(rnd.choice(POS))
        elif c in NEG:
            out.append(rnd.choice(NEG))
        else:
            out.append(rnd.choice(NEUT))
    rnd.shuffle(out)
    t = "".join(out)
    if sorted(t) == sorted(s):
        i = next((j for j, c in enumerate(t) if c not in POS + NEG), None)
        if i is not None:
            t = t[:i] + ("A" if t[i] != "A" else "G") + t[i + 1:]
        else:
            t = t[:0] + ("R" if t[0] == "K" else "K" if t[0] == "R" else "D" if t[0] == "E" else "E") + t[1:]
    return t


def class_counts(s):
    p = sum(1 for c in s if c in POS)
    m = sum(1 for c in s if c in NEG)
    return p, m, len(s) - p - m


def seq_with_counts(rnd, p, m, z):
    l = [rnd.choice(POS) for _ in range(p)] + [rnd.choice(NEG) for _ in range(m)] + [rnd.choice(NEUT) for _ in range(z)]
    rnd.shuffle(l)
    return "".join(l)


def concat_collision(rnd, s, maxlen=60):
    """a sequence whose (n+, n-, n0) is a different parse of the same digit string, e.g. (11,2,7) vs (1,12,7):
    relatives of this kind expose cache keys built by gluing the counts together.  None if there is none."""
    p, m, z = class_counts(s)
    d = "%d%d%d" % (p, m, z)
    alts = []
    for i in range(1, len(d) - 1):
        for j in range(i + 1, len(d)):
            parts = (d[:i], d[i:j], d[j:])
            if any(len(x) > 1 and x[0] == "0" for x in parts):
                continue
            t = tuple(int(x) for x in parts)
            if t != (p, m, z) and 0 < sum(t) <= maxlen:
                alts.append(t)
    if not alts:
        return None
    return seq_with_counts(rnd, *rnd.choice(alts))


def gen_two_digit_counts(rnd):
    """a sequence with at least ten residues in one charge class (so that glued-count keys can collide)"""
    big = rnd.randrange(10, 16)
    a, b = rnd.randrange(1, 4), rnd.randrange(1, 9)
    t = [big, a, b]
    rnd.shuffle(t)
    return seq_with_counts(rnd, *t)


def gen_seq(rnd, n, cls=None):
    if cls is None:
        cls = rnd.choice(CLASSES)
    if cls == "idp":
        alpha = "GSPQNEKDRTA" * 3 + AA
    elif cls == "polyampholyte":
        alpha = "KKKEEEDDRRG" + "S"
    elif cls == "polyelectrolyte":
        alpha = rnd.choice(("KKKKRRRGS", "EEEEDDDGS", "KKKKKKKKE", "EEEEEEEEK"))
    elif cls == "lowcomplexity":
        k = rnd.randrange(1, 4)
        alpha = "".join(rnd.choice(AA) for _ in range(k))
    elif cls == "nocharge":
        alpha = NEUT
    elif cls == "sty_rich":
        alpha = "SSTTYY" + "GKEA"
    elif cls == "onecharge":
        alpha = rnd.choice(POS + NEG) + NEUT[:rnd.randrange(1, 6)]
    else:
        alpha = AA
    return "".join(rnd.choice(alpha) for _ in range(n))


def seq_class_of(s):
    p = sum(1 for c in s if c in POS)
    m = sum(1 for c in s if c in NEG)
    if p == 0 and m == 0:
        return "nocharge"
    if p == 0 or m == 0:
        return "onesign"
    if p + m == len(s):
        return "allcharged"
    return "mixed"


def weighted(rnd, pairs):
    tot = sum(w for _, w in pairs)
    x = rnd.random() * tot
    for v, w in pairs:
        x -= w
        if x < 0:
            return v
    return pairs[-1][0]

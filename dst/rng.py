"""RNG seam.  The code under test calls `rng.Random()` then `.seed(time.time())`.

* MTRandom: the real Mersenne Twister, bit for bit (seeded from the SimClock);
  only counts draws so that a non-terminating loop hits a cap.
* TapeRandom: every primitive draw (random / getrandbits / _randbelow) is
  supplied by a driver; CPython's sample/shuffle/randint/choice/randrange are
  built on these three primitives (verified on 3.12).
"""
import random
from .kernel import DrawCap


class RngModule(object):
    """Stands in for the `random` module imported as `rng`: `Random(...)` builds a generator owned by the
    simulator; the module-level functions (`seed`, `random`, `shuffle`, `sample`, `choice`, `randint`, ...)
    go through one such generator, like the hidden instance of the real module."""

    def __init__(self, factory):
        self._factory = factory
        self._shared = None
        self._cls = None

    @property
    def Random(self):
        """a real class (library code may say isinstance(x, rng.Random) or subclass-check it); constructing it
        hands out a generator owned by the simulator"""
        if self._cls is None:
            factory = self._factory
            base = [None]

            class _Meta(type):
                def __instancecheck__(cls, inst):
                    return isinstance(inst, random.Random)

                def __subclasscheck__(cls, sub):
                    return issubclass(sub, random.Random)

                def __call__(cls, *a, **k):
                    if cls is not base[0]:
                        return type.__call__(cls, *a, **k)      # a subclass defined by the library: an ordinary generator
                    r = factory()
                    seed = a[0] if a else k.get("x")
                    if seed is not None:
                        r.seed(seed)          # an explicit seed is honoured (the counted MT reproduces the real stream)
                    return r
            self._cls = base[0] = _Meta("Random", (random.Random,), {})
        return self._cls

    def SystemRandom(self, *a):
        return self._factory()

    def __getattr__(self, name):
        if name.startswith("__"):
            raise AttributeError(name)
        if self._shared is None:
            self._shared = self._factory()
        try:
            return getattr(self._shared, name)
        except AttributeError:
            return getattr(random, name)


class MTRandom(random.Random):
    def __init__(self, who, ctx, cap):
        self._who = who
        self._ctx = ctx
        self._cap = cap
        self._n = 0
        random.Random.__init__(self, 0)

    def seed(self, a=None, version=2):
        if hasattr(self, "_ctx"):
            if a is None:
                # "seed from the system" would pull OS entropy into the run: substitute a value of the run's own stream
                a = self._ctx.streams.stream("os_entropy_%d" % self._ctx.counters.get("seed_none", 0)).getrandbits(64)
                self._ctx.count("seed_none")
            self._ctx.log.emit("seed", who=self._who, v=repr(a))
        random.Random.seed(self, a, version)

    def _tick(self):
        self._n += 1
        self._ctx.count("draws_" + self._who)
        if self._n > self._cap:
            raise DrawCap(self._who)

    def random(self):
        self._tick()
        return random.Random.random(self)

    def getrandbits(self, k):
        self._tick()
        return random.Random.getrandbits(self, k)


class TapeRandom(random.Random):
    def __init__(self, who, ctx, driver, cap):
        self._who = who
        self._ctx = ctx
        self._drv = driver
        self._cap = cap
        self._n = 0
        random.Random.__init__(self, 0)

    def seed(self, a=None, version=2):
        if hasattr(self, "_ctx"):
            self._ctx.log.emit("seed", who=self._who, v=repr(a))

    def _tick(self):
        self._n += 1
        self._ctx.count("draws_" + self._who)
        if self._n > self._cap:
            raise DrawCap(self._who)

    def random(self):
        self._tick()
        v = self._drv.random(self._who)
        assert 0.0 <= v < 1.0, v
        self._ctx.log.emit("draw", who=self._who, k="r", v=repr(v))
        return v

    def getrandbits(self, k):
        self._tick()
        v = self._drv.bits(self._who, k)
        assert 0 <= v < (1 << k)
        self._ctx.log.emit("draw", who=self._who, k="b", n=k, v=v)
        return v

    def _randbelow(self, n):
        self._tick()
        v = self._drv.below(self._who, n)
        assert 0 <= v < n, (v, n)
        self._ctx.log.emit("draw", who=self._who, k="n", n=n, v=v)
        return v


class UniformDriver(object):
    """Draws come from a seeded stream; with `bias` > 0 a share of draws take
    boundary values (first / last index, 0.0, largest float below 1)."""

    ONE_MINUS = 1.0 - 2.0 ** -53

    def __init__(self, rnd, bias=0.0, ctx=None):
        self.rnd = rnd
        self.bias = bias
        self.ctx = ctx
        self.last = {}
        self.rep = 0

    def random(self, who):
        r = self.rnd
        if self.bias and r.random() < self.bias:
            if self.ctx:
                self.ctx.fault("rng_boundary_random")
            return r.choice((0.0, self.ONE_MINUS, 0.5, 2.0 ** -40))
        return r.random()

    def bits(self, who, k):
        r = self.rnd
        if self.bias and r.random() < self.bias:
            return r.choice((0, (1 << k) - 1))
        return r.getrandbits(k)

    def below(self, who, n):
        r = self.rnd
        if self.bias and r.random() < self.bias:
            if self.ctx:
                self.ctx.fault("rng_boundary_index")
            c = r.randrange(3)
            if c == 0:
                v = 0
            elif c == 1:
                v = n - 1
            else:
                v = self.last.get(who, 0)
                self.rep += 1
                if v >= n or self.rep > 2:
                    v = r.randrange(n)
                    self.rep = 0
        else:
            v = r.randrange(n)
            self.rep = 0
        self.last[who] = v
        return v


class ListDriver(object):
    """Replays a recorded tape verbatim; range-free: `below` values are stored
    as fractions and rescaled to the n the code asks for."""

    def __init__(self, tape, fallback):
        self.tape = list(tape)
        self.i = 0
        self.fallback = fallback

    def _next(self):
        if self.i < len(self.tape):
            v = self.tape[self.i]
            self.i += 1
            return v
        return None

    def random(self, who):
        v = self._next()
        if v is None:
            return self.fallback.random(who)
        v = float(v)
        return min(max(v, 0.0), UniformDriver.ONE_MINUS)

    def bits(self, who, k):
        v = self._next()
        if v is None:
            return self.fallback.bits(who, k)
        return min(int(float(v) * (1 << k)), (1 << k) - 1)

    def below(self, who, n):
        v = self._next()
        if v is None:
            return self.fallback.below(who, n)
        return min(int(float(v) * n), n - 1)

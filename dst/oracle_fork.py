"""Pristine-interpreter oracle.

A server process is forked *before the history begins* and never executes
library code itself; for every request it forks a worker that builds a fresh
object from the string, replays that object's mutators, runs the one query and
returns the canonical value.  So the oracle is history-free by construction:
shared defaults, module tables and caches in the worker are those of a
pristine interpreter image.
"""
import json
import os
import select
import signal

from .kernel import canon


SHARED = {}       # caller-owned objects that the history reuses across calls (edited in place); per process


def dec(x):
    if isinstance(x, dict):
        if "__shared__" in x:
            # the caller keeps one dict object and edits it in place between calls; a fresh
            # process (the oracle worker) naturally starts with a new one
            val = dec(x["value"])
            if isinstance(val, list):
                l = SHARED.setdefault(x["__shared__"] + "#list", [])
                del l[:]
                l.extend(val)
                return l
            d = SHARED.setdefault(x["__shared__"], {})
            d.clear()
            d.update(val)
            return d
        if "__set__" in x:
            return set(dec(v) for v in x["__set__"])
        if "__tuple__" in x:
            return tuple(dec(v) for v in x["__tuple__"])
        return {k: dec(v) for k, v in x.items()}
    if isinstance(x, list):
        return [dec(v) for v in x]
    return x


def apply_op(obj, name, args, kwargs, raw=None):
    """Runs one API call with arguments rebuilt from JSON; returns canonical value.
    If `raw` is a list, the raw return value is appended to it."""
    a = [dec(v) for v in args]
    k = {kk: dec(v) for kk, v in (kwargs or {}).items()}
    try:
        if name == "__len__":
            v = len(obj)
        elif name == "__str__":
            v = str(obj)
        else:
            v = getattr(obj, name)(*a, **k)
    except Exception as e:
        return {"exc": type(e).__name__}
    if raw is not None:
        raw.append(v)
    return canon(v)


def scribble(v):
    """what a careless caller may do with a container it was handed: edit it in place.
    Returns True if something was changed."""
    try:
        import numpy as np
    except Exception:  # pragma: no cover
        np = None
    if isinstance(v, list):
        for x in v:
            if isinstance(x, (list, dict, tuple)) or (np is not None and isinstance(x, np.ndarray)):
                scribble(x)                       # nested containers first (a result may be [value, table])
        if v and all(isinstance(x, str) for x in v):
            v.pop(0)                              # a list of letters/names: drop one, add a foreign one
            v.append("X")
        if v:
            v.reverse()
        v.append(999999)
        return True
    if isinstance(v, dict):
        for key in list(v)[:3]:
            v[key] = "scribbled"
        v["scribbled"] = 1
        return True
    if np is not None and isinstance(v, np.ndarray):
        if v.size and v.flags.writeable:
            v.fill(7)
            return True
        return False
    if isinstance(v, tuple):
        return any([scribble(x) for x in v])
    return False


def _write_all(fd, data):
    off = 0
    while off < len(data):
        off += os.write(fd, data[off:off + 65536])


def _read_line(fd, timeout):
    buf = b""
    while not buf.endswith(b"\n"):
        rl, _, _ = select.select([fd], [], [], timeout)
        if not rl:
            raise TimeoutError("oracle timed out")
        chunk = os.read(fd, 1 << 16)
        if not chunk:
            raise EOFError("oracle closed")
        buf += chunk
    return buf


class ForkOracle(object):
    def __init__(self, setup):
        """setup(): called in each worker before the object is built (installs sinks)."""
        self.req_r, self.req_w = os.pipe()
        self.res_r, self.res_w = os.pipe()
        self.pid = os.fork()
        if self.pid == 0:
            try:
                os.close(self.req_w)
                os.close(self.res_r)
                self._serve(setup)
            finally:
                os._exit(0)
        os.close(self.req_r)
        os.close(self.res_w)
        self.requests = 0

    def _serve(self, setup):
        buf = b""
        while True:
            chunk = os.read(self.req_r, 1 << 16)
            if not chunk:
                return
            buf += chunk
            while b"\n" in buf:
                line, buf = buf.split(b"\n", 1)
                req = json.loads(line.decode("utf-8"))
                pid = os.fork()
                if pid == 0:
                    try:
                        out = self._work(req, setup)
                    except BaseException as e:
                        out = {"oracle_error": "%s: %s" % (type(e).__name__, e)}
                    try:
                        _write_all(self.res_w, (json.dumps(out) + "\n").encode("utf-8"))
                    finally:
                        os._exit(0)
                os.waitpid(pid, 0)

    @staticmethod
    def _work(req, setup):
        setup()
        from localcider.sequenceParameters import SequenceParameters
        obj = SequenceParameters(req["seq"])
        for m in req.get("mutators", []):
            apply_op(obj, m[0], m[1], m[2])
        return {"v": apply_op(obj, req["op"][0], req["op"][1], req["op"][2])}

    def ask(self, seq, mutators, op, timeout=240.0):
        self.requests += 1
        req = {"seq": seq, "mutators": mutators, "op": op}
        _write_all(self.req_w, (json.dumps(req) + "\n").encode("utf-8"))
        out = json.loads(_read_line(self.res_r, timeout).decode("utf-8"))
        if "oracle_error" in out:
            raise RuntimeError("oracle failed: " + out["oracle_error"])
        return out["v"]

    def close(self):
        try:
            os.close(self.req_w)
            os.close(self.res_r)
        except OSError:
            pass
        try:
            os.kill(self.pid, signal.SIGKILL)
        except OSError:
            pass
        try:
            os.waitpid(self.pid, 0)
        except OSError:
            pass

"""C17 — shuffles and moves only rearrange, keep frozen sites, stay self-consistent.

The simulator owns the clock that seeds every move's RNG and (in tape modes)
the RNG itself.  Workload: seeded chains of moves over a world of live
Sequence objects with frozen sets and warm/cold delta-max caches.
Oracle: predicates R1-R5 over each op's before/after snapshot, evaluated
through the public API of SequenceParameters wrappers.
"""
import copy

from .. import envmode
from ..kernel import Violation, Discard, DrawCap, feq, canon, cjson
from ..kernel import quiet_print as _quiet_print
from ..gen import gen_seq, seq_class_of, AA, gen_special, gen_two_digit_counts, concat_collision, same_classes_other_letters
from ..clock import SimClock, MODES
from ..rng import RngModule, MTRandom, TapeRandom, UniformDriver, ListDriver
from ..minimise import list_candidates

ID = "C17"
LEVEL = "exploration"
TIERS = {
    "quick": {"runs": 3500, "wall_cap": 150, "timeout": 400, "dups": 16},
    "thorough": {"runs": 90000, "wall_cap": 1700, "timeout": 400, "dups": 64},
}
MOVES = ("swapRandChargeRes", "full_shuffle", "permute_block_swap", "permute_cluster_charges")
RULE = ("Each run is a seeded chain (4-16 ops, depth up to 12) over a world of 1-3 root sequences (N 1-40, all composition classes incl. "
        "one charge type, no charge, N<4): warm (kappa / deltaMax with or without permutant), the four backend moves, swapRes, "
        "get_shuffled_sequence(frozen), SequencePermutants.get_permutant; frozen sets empty / random / one charge class / everything / "
        "out-of-range, as set or list. Per run one clock policy (normal, stall = identical seeds, coarse, jump forward/back, extreme, mixed) "
        "and one RNG mode (real Mersenne Twister seeded from the simulated clock; uniform tape; boundary-biased tape; scripted tape). "
        "Non-trivial: at least one move ran with a non-empty frozen set or a warm cache or under a clock fault / biased tape; distinct = distinct event-log digests of such runs.")
SIG_RULE = "(op/move kind, composition class of the parent, frozen class, delta-max cached?, clock mode, rng mode)"
REAL = ["localcider.backend.sequence.Sequence: swapRes, swapRandChargeRes, full_shuffle, permute_block_swap, permute_cluster_charges, __init__, kappa/deltaMax",
        "SequenceParameters.get_shuffled_sequence, SequencePermutants.get_permutant", "random.Random algorithms (sample/shuffle/randint) on top of the tape primitives"]
STUBBED = ["localcider.backend.sequence.time -> SimClock", "localcider.backend.sequence.rng -> factory of MTRandom (real MT, counted) or TapeRandom (every primitive draw from the simulator)"]
ASSUMPTIONS = ["frozen positions are 0-based (the convention full_shuffle implements)",
               "totality (R5) is required of full_shuffle, swapRes, swapRandChargeRes, get_shuffled_sequence, get_permutant for every sequence; "
               "of permute_block_swap where a block swap exists (N>=4); permute_cluster_charges is excluded by its own named refusal, and its "
               "non-termination (N<5, single charge type) is counted as BUDGET",
               "bookkeeping is observed through the API: length, counts, per-residue charge via get_linear_NCPR(1), SCD, carried delta-max via get_deltaMax()",
               "swapRes indices are valid 0-based positions"]
PROBES = ["setter_on_an_object_of_the_chain", "object_dropped_and_replaced", "frozen_positions_are_numpy_ints", "chain_longer_than_1000", "light_op_checked_at_next_sweep", "permutants_object_reused", "frozen_as_shared_set", "earlier_api_result_still_held", "default_frozen_argument", "frozen_as_tuple", "frozen_as_frozenset", "frozen_as_range", "frozen_nonempty", "frozen_all", "frozen_out_of_range", "frozen_as_list", "cache_warm_before_move", "child_inherits_dmax",
          "same_seed_twice", "clock_went_back", "returns_self", "block_swap_attempt_99", "block_swap_N_lt_4", "cluster_draw_cap",
          "cluster_named_refusal", "chain_depth_ge_5", "panel_on_child", "permutant_api", "shuffle_api", "swapres_same_index",
          "three_types_sample", "moved_something"]


def gen_plan(streams, tier):
    rnd = streams.stream("plan")
    nroot = rnd.choice((1, 1, 2, 3))
    roots = []
    for _ in range(nroot):
        n = rnd.choice((rnd.randrange(1, 5), rnd.randrange(4, 12), rnd.randrange(8, 25), rnd.randrange(15, 41)))
        if rnd.random() < 0.05:
            n = rnd.randrange(66, 100)                # positions beyond 63 (machine-word boundaries)
        if rnd.random() < 0.12:
            roots.append(gen_special(rnd))        # raw kappa above 1: exercises the clamp branch of kappa()
        else:
            roots.append(gen_seq(rnd, n, rnd.choice(("idp", "polyampholyte", "polyampholyte", "polyelectrolyte", "lowcomplexity",
                                                      "nocharge", "uniform", "onecharge", "sty_rich"))))
    related = None
    if rnd.random() < 0.12:
        # a cold object next to a relative whose delta-max is computed first: glued-count collision, same class
        # counts with other letters, or a tandem repeat (caches shared between objects must not leak)
        a0 = gen_two_digit_counts(rnd)
        rel = concat_collision(rnd, a0) or same_classes_other_letters(rnd, a0)
        if rnd.random() < 0.3:
            rel = same_classes_other_letters(rnd, a0)
        roots = [a0, rel]
        related = True
    rng_mode = rnd.choice(("mt", "mt", "tape", "tape", "biased", "biased"))
    clock_mode = rnd.choice(MODES)
    move_w = {m: rnd.choice((0, 1, 1, 2)) for m in MOVES}
    if not any(move_w.values()):
        move_w["full_shuffle"] = 1
    ops = []
    nops = rnd.randrange(4, 17)
    p_light = rnd.choice((0.0, 0.0, 0.5, 1.0))
    if rnd.random() < 0.04:
        # shuffle an object, shuffle the result (so the library has worked on it), let it die, put a different
        # object of the same length and end residues in its place, shuffle that one
        fzx = {"fz": "explicit", "fl": [0], "ft": "set", "panel": False}
        ops += [dict({"k": "move", "o": -1, "m": "full_shuffle", "light": True}, **fzx), dict({"k": "move", "o": -1, "m": "full_shuffle", "light": True}, **fzx),
                {"k": "drop", "o": -2}, dict({"k": "move", "o": -2, "m": "full_shuffle"}, **fzx),
                dict({"k": "shuffle_api", "o": -3}, **fzx)]
    if rnd.random() < 0.01:
        # a very long chain of swaps on objects whose delta-max is never looked at
        for q in range(1100):
            ops.append({"k": "swapres", "o": -1, "i": rnd.random(), "j": rnd.random(), "light": True} if q % 2 else
                       {"k": "move", "o": -1, "m": "swapRandChargeRes", "fz": "none", "ft": "set", "panel": False, "light": True})
        nops = 3
    if related:
        m0 = rnd.choice(MOVES)
        ops.append({"k": "warm", "o": 1, "how": rnd.choice(("kappa", "dmax", "dmax_perm"))})
        op = {"k": "move", "o": 0, "m": m0, "panel": rnd.random() < 0.5}
        op.update(gen_frozen(rnd, allow_list=(m0 == "full_shuffle")))
        ops.append(op)
    for _ in range(nops):
        x = rnd.random()
        o = rnd.randrange(0, 50)
        if rnd.random() < 0.5:
            o = -1  # most recent object: builds deep chains
        if x < 0.03:
            ops.append({"k": "setter", "o": o, "n": rnd.randrange(1, 4)})
        elif x < 0.05:
            ops.append({"k": "drop", "o": o})
        elif x < 0.14:
            ops.append({"k": "warm", "o": o, "how": rnd.choice(("kappa", "dmax", "dmax_perm"))})
        elif x < 0.72:
            m = rnd.choice([m for m in MOVES for _ in range(move_w[m])])
            op = {"k": "move", "o": o, "m": m, "panel": rnd.random() < 0.3, "light": rnd.random() < p_light}
            op.update(gen_frozen(rnd, allow_list=(m == "full_shuffle")))
            ops.append(op)
        elif x < 0.80:
            ops.append({"k": "swapres", "o": o, "i": rnd.random(), "j": rnd.random() if rnd.random() < 0.9 else None, "light": rnd.random() < p_light})
        elif x < 0.93:
            op = {"k": "shuffle_api", "o": o, "panel": rnd.random() < 0.3, "light": rnd.random() < p_light}
            op.update(gen_frozen(rnd, allow_list=True))
            ops.append(op)
        else:
            ops.append({"k": "permutant", "o": o, "reuse_permutants": rnd.random() < 0.7})
    noise = rnd.randrange(1 << 30) if rnd.random() < 0.2 else None
    return {"property": ID, "env": envmode.choose(rnd, extra=("np_err_raise",)), "run_seed": streams.run_seed, "noise": noise, "roots": roots, "rng_mode": rng_mode, "clock_mode": clock_mode,
            "bias": rnd.choice((0.15, 0.35, 0.6)), "ops": ops}


def gen_frozen(rnd, allow_list):
    spec = rnd.choice(("none", "default", "default", "random", "random", "pos", "neg", "neut", "all", "oor", "half", "charged"))
    r = rnd.random()
    if allow_list and r < 0.45:
        ft = rnd.choice(("list", "list", "tuple", "frozenset", "range"))
    elif r < 0.6:
        ft = "frozenset"
    elif r < 0.75:
        ft = "shared_set"
    else:
        ft = "set"
    return {"fz": spec, "fp": rnd.choice((0.1, 0.3, 0.6)), "fs": rnd.randrange(1 << 30), "ft": ft, "kw": rnd.random() < 0.2,
            "npint": rnd.random() < 0.2}


def resolve_frozen(op, seq):
    import random
    spec = op.get("fz", "none")
    N = len(seq)
    r = random.Random(op.get("fs", 0))
    if spec == "none":
        f = []
    elif spec == "random":
        f = [i for i in range(N) if r.random() < op.get("fp", 0.3)]
    elif spec == "pos":
        f = [i for i, c in enumerate(seq) if c in "KR"]
    elif spec == "neg":
        f = [i for i, c in enumerate(seq) if c in "DE"]
    elif spec == "charged":
        f = [i for i, c in enumerate(seq) if c in "DEKR"]
    elif spec == "neut":
        f = [i for i, c in enumerate(seq) if c not in "DEKR"]
    elif spec == "all":
        f = list(range(N))
    elif spec == "half":
        f = list(range(N // 2))
    elif spec == "oor":
        f = [i for i in range(N) if r.random() < 0.2] + [N, N + 3, 10 ** 6]
    elif spec == "explicit":
        f = list(op.get("fl", []))
    else:
        f = []
    return f


CALLER_SET = set()


def container(frozen, ft, npint=False):
    """the frozen positions in the container type the plan asks for (all plain Python containers)"""
    if npint and ft != "range":
        import numpy as np
        frozen = [np.int64(x) for x in frozen]      # e.g. set(np.where(...)[0]): numpy integers, not Python ints
    if ft == "shared_set":
        # the caller keeps one set object and edits it in place between calls
        CALLER_SET.clear()
        CALLER_SET.update(frozen)
        return CALLER_SET
    if ft == "list":
        return list(frozen)
    if ft == "tuple":
        return tuple(frozen)
    if ft == "frozenset":
        return frozenset(frozen)
    if ft == "range":
        f = sorted(set(frozen))
        if f and f == list(range(f[0], f[-1] + 1)):
            return range(f[0], f[-1] + 1)
        return list(frozen)
    return set(frozen)


def corpus():
    out = []

    def mk(name, roots, ops, rng_mode="tape", clock_mode="normal", **kw):
        p = {"property": ID, "run_seed": 170 + len(out), "roots": roots, "rng_mode": rng_mode, "clock_mode": clock_mode, "bias": 0.0, "ops": ops}
        p.update(kw)
        out.append((name, p))
    mk("swapres_two_indices", ["GKEGKEGKESTY"], [{"k": "swapres", "o": 0, "i": 0.1, "j": 0.2}, {"k": "warm", "o": 0, "how": "kappa"},
                                                 {"k": "swapres", "o": 0, "i": 0.1, "j": 0.9}, {"k": "swapres", "o": -1, "i": 0.5, "j": 0.0}])
    mk("charge_swap_runs", ["GKEGKEGKESTY", "KKKKEEEE", "KKKKGGGG", "EEEEGGGG"],
       [{"k": "move", "o": i, "m": "swapRandChargeRes", "fz": "none", "ft": "set", "panel": True} for i in (0, 1, 2, 3, 0, 1)], rng_mode="mt")
    mk("frozen_full_shuffle", ["MKEGSTYKEDDRRGSP"], [{"k": "move", "o": -1, "m": "full_shuffle", "fz": z, "fp": 0.4, "fs": 7, "ft": t, "panel": False}
                                                      for z in ("random", "pos", "all", "oor", "half") for t in ("set", "list")])
    mk("frozen_container_types", ["MKEGSTYKEDDRRGSP"], [{"k": kk, "o": 0, "m": "full_shuffle", "fz": "half", "ft": t, "panel": False}
                                                       for t in ("set", "list", "tuple", "frozenset", "range") for kk in ("move", "shuffle_api")] +
       [{"k": "move", "o": 0, "m": "swapRandChargeRes", "fz": "charged", "ft": "frozenset", "panel": False}])
    mk("default_argument_after_explicit_frozen", ["MKEGSTYKEDDRRGSP"], [
        {"k": "move", "o": 0, "m": "full_shuffle", "fz": "half", "ft": "set", "panel": False}, {"k": "move", "o": 0, "m": "full_shuffle", "fz": "default", "panel": False},
        {"k": "shuffle_api", "o": 0, "fz": "all", "ft": "set", "panel": False}, {"k": "shuffle_api", "o": 0, "fz": "default", "panel": False},
        {"k": "move", "o": 0, "m": "swapRandChargeRes", "fz": "charged", "ft": "set", "panel": False}, {"k": "move", "o": 0, "m": "swapRandChargeRes", "fz": "default", "panel": False},
        {"k": "move", "o": 0, "m": "permute_block_swap", "fz": "default", "panel": False}, {"k": "move", "o": 0, "m": "permute_cluster_charges", "fz": "default", "panel": False}])
    mk("one_frozen_set_object_grown_between_calls", ["MKEGSTYKEDDRRGSPKE"],
       [{"k": "move", "o": 0, "m": "swapRandChargeRes", "fz": "explicit", "fl": fl, "ft": "shared_set", "panel": False}
        for fl in ([0], [0, 1, 2], [0, 1, 2, 7, 8], [0, 1, 2, 7, 8, 9, 10, 11], [0, 1, 2, 7, 8, 9, 10, 11, 12, 16, 17], [1], [1, 2, 7, 8, 9, 10, 11, 12, 16])] +
       [{"k": "move", "o": 0, "m": "full_shuffle", "fz": "explicit", "fl": fl, "ft": "shared_set", "panel": False} for fl in ([0], [0, 5, 9], [3])])
    mk("results_of_several_api_calls_stay_apart", ["MKEGSTYKEDDRRGSP", "GGSTKE"],
       [{"k": "permutant", "o": 0}, {"k": "permutant", "o": 1}, {"k": "shuffle_api", "o": 0, "fz": "none", "ft": "set", "panel": False},
        {"k": "permutant", "o": 0}, {"k": "shuffle_api", "o": 1, "fz": "half", "ft": "set", "panel": False}, {"k": "permutant", "o": 1}])
    mk("thousand_cold_swaps", ["GKEGKEGSTYKEDDRR"], [({"k": "swapres", "o": -1, "i": (q * 7 % 16) / 16.0, "j": (q * 11 % 16) / 16.0, "light": True} if q % 2 else
                                                     {"k": "move", "o": -1, "m": "swapRandChargeRes", "fz": "none", "ft": "set", "panel": False, "light": True})
                                                    for q in range(1100)] + [{"k": "warm", "o": -1, "how": "kappa"}])
    mk("numpy_integer_positions_beyond_63", ["MKEGSTYKEDDRRGSPAQ" * 5], [
        {"k": kk, "o": 0, "m": "full_shuffle", "fz": "explicit", "fl": [0, 1, 5, 62, 63, 64, 65, 70, 80, 89], "ft": t, "npint": True, "panel": False}
        for t in ("set", "list", "frozenset") for kk in ("move", "shuffle_api")])
    mk("setters_do_not_reach_relatives", ["GSKETGSKETYKE"], [
        {"k": "setter", "o": 0, "n": 2}, {"k": "swapres", "o": 0, "i": 0.1, "j": 0.5}, {"k": "move", "o": 0, "m": "swapRandChargeRes", "fz": "none", "ft": "set", "panel": False},
        {"k": "setter", "o": 1, "n": 3}, {"k": "move", "o": 1, "m": "full_shuffle", "fz": "none", "ft": "set", "panel": False}, {"k": "setter", "o": 2, "n": 1},
        {"k": "shuffle_api", "o": 0, "fz": "none", "ft": "set", "panel": False}, {"k": "setter", "o": -1, "n": 2}])
    fzx = {"fz": "explicit", "fl": [0, 12], "ft": "set", "panel": False}
    mk("objects_die_and_are_replaced", ["GSKETGSKETYKE"], [op_ for q in range(5) for op_ in (
        dict({"k": "move", "o": -1, "m": "full_shuffle", "light": True}, **fzx), dict({"k": "move", "o": -1, "m": "full_shuffle", "light": True}, **fzx),
        {"k": "drop", "o": -2}, dict({"k": "move", "o": -2, "m": "full_shuffle"}, **fzx), dict({"k": "shuffle_api", "o": -3}, **fzx))])
    mk("frozen_charge_swap", ["MKEGSTYKEDDRRGSP"], [{"k": "move", "o": -1, "m": "swapRandChargeRes", "fz": z, "fp": 0.4, "fs": 9, "ft": "set", "panel": False}
                                                     for z in ("random", "pos", "neg", "neut", "all", "charged", "half")])
    mk("warm_cache_chain", ["GKEGKEGKEGKEGSTY"], [{"k": "warm", "o": 0, "how": "kappa"}] +
       [{"k": "move", "o": -1, "m": m, "fz": "none", "ft": "set", "panel": True} for m in MOVES] +
       [{"k": "warm", "o": -1, "how": "dmax_perm"}, {"k": "shuffle_api", "o": -1, "fz": "half", "ft": "list", "panel": True}, {"k": "permutant", "o": -1}])
    mk("kappa_clamp_branch_then_moves", ["KEEGEEK", "ETGASKKRRKRQPTQGNASGPATTTN", "KKEEEGK"],
       [{"k": "warm", "o": o, "how": "kappa"} for o in (0, 1, 2)] +
       [{"k": "move", "o": o, "m": m, "fz": "none", "ft": "set", "panel": True} for o in (0, 1, 2) for m in ("full_shuffle", "swapRandChargeRes")] +
       [{"k": "shuffle_api", "o": o, "fz": "none", "ft": "set", "panel": False} for o in (0, 1, 2)])
    mk("cold_parent_next_to_warm_relatives", ["KKKKKKKKKKKEEGSTAPQ", "KEEEEEEEEEEEEGSTAPQ", "RRRRRRRRRRRDDAGSTPN"],
       [{"k": "warm", "o": 1, "how": "dmax"}, {"k": "move", "o": 0, "m": "full_shuffle", "fz": "none", "ft": "set", "panel": False},
        {"k": "warm", "o": 2, "how": "kappa"}, {"k": "move", "o": 0, "m": "swapRandChargeRes", "fz": "none", "ft": "set", "panel": False},
        {"k": "warm", "o": 1, "how": "dmax_perm"}, {"k": "shuffle_api", "o": 0, "fz": "none", "ft": "set", "panel": True}])
    mk("same_seed_twice", ["GKEGKEGKEGKEGSTY"], [{"k": "move", "o": 0, "m": "full_shuffle", "fz": "none", "ft": "set", "panel": False}] * 4,
       rng_mode="mt", clock_mode="stall")
    # scripted tape: 98 delta-preserving block proposals (G<->G), then one that changes delta on the 99th attempt
    tape = [0.0, 0.0, 1.5 / 17] * 98 + [0.0, 0.0, 15.5 / 17]
    mk("block_swap_changes_on_attempt_99", ["G" * 16 + "KKEE"], [{"k": "move", "o": 0, "m": "permute_block_swap", "fz": "none", "ft": "set", "panel": False}],
       rng_mode="script", tape=tape)
    mk("block_swap_short", ["GKE", "KE", "K"], [{"k": "move", "o": i, "m": "permute_block_swap", "fz": "none", "ft": "set", "panel": False} for i in range(3)])
    mk("frozen_block_and_cluster", ["KKEEGKEGKEGSKKEE"], [{"k": "move", "o": 0, "m": m, "fz": "half", "ft": "set", "panel": False}
                                                          for m in ("permute_block_swap", "permute_cluster_charges") for _ in range(6)])
    mk("tiny_sequences", ["K", "KE", "GKE", "GGGG"], [{"k": "move", "o": i, "m": m, "fz": "none", "ft": "set", "panel": True}
                                                      for i in range(4) for m in ("full_shuffle", "swapRandChargeRes")] +
       [{"k": "shuffle_api", "o": i, "fz": "none", "ft": "set", "panel": True} for i in range(4)] + [{"k": "permutant", "o": i} for i in range(4)])
    return out


# ------------------------------------------------------------------ execution
class World(object):
    pass


def execute(plan, ctx):
    import numpy as np
    import localcider.backend.sequence as seqmod
    import localcider.sequenceParameters as spmod
    import localcider.sequencePermutants as permmod
    from localcider.sequenceParameters import SequenceParameters
    from localcider.sequencePermutants import SequencePermutants
    try:
        from localcider.backend.localciderExceptions import SequenceException
    except Exception:
        class SequenceException(Exception):
            pass
    envmode.apply(plan.get("env"), ctx)
    spmod.print = _quiet_print
    clock = SimClock(ctx, ctx.streams.stream("clock"), plan.get("clock_mode", "normal"))
    mode = plan.get("rng_mode", "tape")
    tape_rnd = ctx.streams.stream("tape")
    if mode == "script":
        driver = ListDriver(plan.get("tape", []), UniformDriver(tape_rnd))
    elif mode == "biased":
        driver = UniformDriver(tape_rnd, bias=plan.get("bias", 0.3), ctx=ctx)
    else:
        driver = UniformDriver(tape_rnd)
    cap = [4000]
    made = []

    def factory():
        if mode == "mt":
            r = MTRandom("move", ctx, cap[0])
        else:
            r = TapeRandom("move", ctx, driver, cap[0])
        made.append(r)
        return r
    seqmod.time = clock
    seqmod.rng = RngModule(factory)

    if plan.get("noise") is not None:
        from ..noise import noise_prelude
        noise_prelude(ctx, plan["noise"])
    live = []          # backend Sequence objects
    depth = []
    recorded = {}
    for s in plan["roots"]:
        live.append(seqmod.Sequence(s))          # the backend class the sampler works on (not via a wrapper's attribute)
        recorded[len(live) - 1] = s.upper()
        depth.append(0)

    def wrap(o):
        return SequenceParameters(SeqObj=o)

    def seq_of(o):
        return SequenceParameters(SeqObj=o).get_sequence()

    def backend_of(sp):
        """the backend object behind a SequenceParameters result (needed to chain moves); None if the
        wrapper no longer exposes one under the name SeqObj"""
        b = getattr(sp, "SeqObj", None)
        if b is None:
            try:
                found = [v for v in vars(sp).values() if isinstance(v, seqmod.Sequence)]
            except TypeError:
                found = []
            b = found[0] if len(found) == 1 else None
        return b

    warm_objs = set()       # ids of live objects on which the plan has computed delta-max (or whose parent carried one)

    def peek_dmax(o):
        return None

    def snap(o):
        w = wrap(o)
        return {"seq": w.get_sequence(), "charge": [float(x) for x in w.get_linear_NCPR(1)[1]], "sites": list(w.get_phosphosites()),
                "html": w.get_HTMLColorString(), "dmax": None, "len": len(w)}

    def fresh_of(s):
        return SequenceParameters(s)

    def check_child(kind, parent_snap, child, frozen, where, panel, key_site, parent_warm=False):
        cs = wrap(child)
        ps = parent_snap["seq"]
        s = cs.get_sequence()
        # R1
        if sorted(s) != sorted(ps):
            raise Violation("not_a_rearrangement", "not_a_rearrangement:" + key_site, "%s of %r returned %r: residues differ" % (where, ps, s))
        # R2
        moved = [i for i in frozen if 0 <= i < len(ps) and (i >= len(s) or s[i] != ps[i])]
        if moved:
            key = "frozen_moved:" + key_site
            msg = "%s of %r with frozen=%r returned %r: frozen position(s) %r changed" % (where, ps, sorted(set(frozen)), s, moved)
            if key in ctx.open_keys:
                ctx.known[key] = ctx.known.get(key, 0) + 1
            else:
                raise Violation("frozen_moved", key, msg)
        if s != ps:
            ctx.probe("moved_something")
        # R3 (non-invasive part)
        f = fresh_of(s)
        if len(cs) != len(f) or cs.get_length() != f.get_length():
            raise Violation("bookkeeping_mismatch", "bookkeeping:len:" + key_site, "%s: child length %r, fresh %r" % (where, len(cs), len(f)))
        a = [float(x) for x in cs.get_linear_NCPR(1)[1]]
        b = [float(x) for x in f.get_linear_NCPR(1)[1]]
        if a != b:
            raise Violation("bookkeeping_mismatch", "bookkeeping:charge:" + key_site, "%s of %r -> %r: child per-residue charges %r, fresh object %r" % (where, ps, s, a, b))
        for q in ("get_countPos", "get_countNeg", "get_countNeut", "get_FCR", "get_NCPR", "get_SCD"):
            x, y = getattr(cs, q)(), getattr(f, q)()
            if not feq(x, y, 1e-12):
                raise Violation("bookkeeping_mismatch", "bookkeeping:%s:%s" % (q, key_site), "%s: child %s()=%r, fresh %r" % (where, q, x, y))
        if parent_warm or panel:
            ctx.probe("child_inherits_dmax")
            x, y = cs.get_deltaMax(), f.get_deltaMax()
            if not feq(x, y, 1e-12):
                raise Violation("bookkeeping_mismatch", "bookkeeping:dmax:" + key_site, "%s of %r -> %r: carried delta-max %r, fresh object computes %r" % (where, ps, s, x, y))
        if panel:
            ctx.probe("panel_on_child")
            for q in ("get_kappa", "get_deltaMax", "get_Omega", "get_mean_hydropathy"):
                x, y = getattr(cs, q)(), getattr(f, q)()
                if not feq(x, y, 1e-12):
                    raise Violation("bookkeeping_mismatch", "bookkeeping:%s:%s" % (q, key_site), "%s of %r -> %r: child %s()=%r, fresh %r" % (where, ps, s, q, x, y))
            x, y = cs.get_deltaMax(True), f.get_deltaMax(True)
            if not feq(x[0], y[0], 1e-12) or (x[1] is None) != (y[1] is None) or (x[1] is not None and sorted(x[1]) != sorted(s)):
                raise Violation("bookkeeping_mismatch", "bookkeeping:dmax_perm:" + key_site, "%s: child get_deltaMax(True)=%r, fresh %r" % (where, x, y))

    def check_parent(parent, before, where, key_site):
        if before is None:
            return                      # light op: the parent is examined at the next sweep
        after = snap(parent)
        for k in ("seq", "charge", "sites", "html", "len"):
            if after[k] != before[k]:
                raise Violation("parent_altered", "parent_altered:" + key_site, "%s altered the object it was called on: %s was %r, now %r" % (where, k, before[k], after[k]))

    def add(child, parent_i, known_seq=None):
        for j, o in enumerate(live):
            if o is child:
                ctx.probe("returns_self")
                return
        live.append(child)
        if set_sites:
            set_sites[len(live) - 1] = None      # filled at the first look: whatever a new object starts with is its own business
        recorded[len(live) - 1] = known_seq if known_seq is not None else wrap(child).get_sequence()
        depth.append(depth[parent_i] + 1)
        if depth[-1] >= 5:
            ctx.probe("chain_depth_ge_5")
        if depth[-1] == 1001:
            ctx.probe("chain_longer_than_1000")

    set_sites = {}        # live index -> phosphosites set on that object through its own setter (once setters are in play)
    perm_objs = {}
    api_results = []      # (what, returned SequenceParameters object, the sequence it had when it was returned)

    def sweep(why):
        for what, spobj, s_then in api_results:
            now = spobj.get_sequence()
            if now != s_then and sorted(now) != sorted(s_then):
                # the statement promises that the returned object holds a rearrangement of the original residues; an
                # object that a later call refills with the residues of another sequence no longer does
                raise Violation("parent_altered", "result_altered_later:" + what,
                                "an object returned earlier by %s held %r and now holds %r (%s): no longer a rearrangement of the residues it was made from" % (
                                    what, s_then, now, why))
            if now != s_then:
                ctx.probe("earlier_result_rearranged_by_a_later_call")    # one shell handed out again: not excluded by the statement
        _sweep_live(why)

    def _sweep_live(why):
        idx = list(range(len(live)))
        if len(idx) > 60:
            # a very long chain: the roots, the most recent objects and an evenly spaced sample
            idx = sorted(set(idx[:5] + idx[-25:] + idx[::max(1, len(idx) // 30)]))
        _sweep_some(why, idx)

    def _sweep_some(why, idx):
        """every live object still equals a fresh object built from the string it had when it was created
        (catches state shared between parent and child that a later move disturbs)"""
        for j in idx:
            o = live[j]
            s0 = recorded.setdefault(j, wrap(o).get_sequence())
            w = wrap(o)
            if w.get_sequence() != s0:
                raise Violation("parent_altered", "later_altered:seq", "live object %d changed from %r to %r (%s)" % (j, s0, w.get_sequence(), why))
            f = fresh_of(s0)
            a = [float(x) for x in w.get_linear_NCPR(1)[1]]
            b = [float(x) for x in f.get_linear_NCPR(1)[1]]
            if a != b or len(w) != len(f):
                raise Violation("bookkeeping_mismatch", "later_altered:charge", "live object %d (%r): per-residue charges %r no longer match a fresh object's %r (%s)" % (j, s0, a, b, why))
            if why == "end of chain":
                d = w.get_deltaMax()
                if not feq(d, f.get_deltaMax(), 1e-12):
                    raise Violation("bookkeeping_mismatch", "later_altered:dmax", "live object %d (%r): delta-max %r, fresh object computes %r (%s)" % (j, s0, d, f.get_deltaMax(), why))
            if set_sites.get(j, 0) is None:
                set_sites[j] = list(w.get_phosphosites())
            if j in set_sites:
                # setters were used on some objects of the chain: each object's phosphosites and palette are its own
                if list(w.get_phosphosites()) != set_sites[j]:
                    raise Violation("parent_altered", "later_altered:sites", "live object %d (%r) now lists phosphosites %r; only %r were ever set on it (%s)" % (
                        j, s0, w.get_phosphosites(), set_sites[j], why))
        ctx.count("sweeps")

    last_seed = [None]
    for n, op in enumerate(plan["ops"]):
        if n and n % 4 == 0 and len(plan["ops"]) <= 100:
            sweep("before op %d" % n)
        i = op["o"] % len(live) if op["o"] >= 0 else max(0, len(live) + op["o"])
        parent = live[i]
        k = op["k"]
        pseq = wrap(parent).get_sequence()
        N = len(pseq)
        cls = seq_class_of(pseq)
        warm = id(parent) in warm_objs
        if k == "setter":
            # a setter used on one object of the chain must not reach its relatives (parents, children, siblings)
            if not set_sites:
                for j2 in range(len(live)):
                    set_sites[j2] = list(wrap(live[j2]).get_phosphosites())
            sty = [q + 1 for q, ch in enumerate(pseq) if ch in "STY"]
            want = sty[: op.get("n", 2)]
            if set_sites.get(i) is None:
                set_sites[i] = list(wrap(parent).get_phosphosites())
            wrap(parent).set_phosphosites(list(want))
            cur = set_sites[i]
            for q in want:
                if q not in cur:
                    cur.append(q)
            ctx.probe("setter_on_an_object_of_the_chain")
            ctx.log.emit("setter", o=i, sites=want)
            continue
        if k == "drop":
            # an object dies (nothing refers to it any more) and a different one of the same length and with the
            # same end residues is built right afterwards: anything remembered by id() now points at the wrong object
            if len(live) > len(plan["roots"]) and len(pseq) >= 4 and i >= len(plan["roots"]):
                s_old = seq_of(live[i])
                s_new = s_old[0] + s_old[-2:0:-1] + s_old[-1]
                api_results[:] = [r for r in api_results if backend_of(r[1]) is not live[i]]
                ctx.probe("object_dropped_and_replaced")
                ctx.log.emit("drop", o=i, new=s_new)
                recorded[i] = s_new
                set_sites.pop(i, None)
                # nothing is allocated between the death of the old object and the birth of the new one,
                # so the new one very likely gets the old one's address
                live[i] = parent = None
                live[i] = seqmod.Sequence(s_new)
            continue
        if k == "warm":
            w = wrap(parent)
            if op["how"] == "kappa":
                w.get_kappa()
            elif op["how"] == "dmax":
                w.get_deltaMax()
            else:
                w.get_deltaMax(True)
            warm_objs.add(id(parent))
            ctx.log.emit("warm", o=i, how=op["how"])
            ctx.sig("warm", cls, op["how"])
            continue
        light = bool(op.get("light"))
        # "light" ops are not surrounded by look-ups on the objects involved (looking is a call too):
        # only the strings are compared now; bookkeeping and parent state are examined at the next sweep
        before = None if light else snap(parent)
        reads0 = clock.reads
        for r_ in made:
            r_._n = 0                 # a Random kept alive across moves (e.g. one per object) starts each op at zero
        del made[:-8]
        made0 = list(made)
        nmade0 = 0
        frozen = []
        where = k
        key_site = k
        raised = None
        child = None
        api_obj = None
        capped = False
        try:
            if k == "move":
                m = op["m"]
                key_site = m
                frozen = resolve_frozen(op, pseq)
                fz = container(frozen, op.get("ft"), op.get("npint"))
                if op.get("npint") and frozen:
                    ctx.probe("frozen_positions_are_numpy_ints")
                where = "%s(frozen=%s as %s)" % (m, op.get("fz"), type(fz).__name__)
                cap[0] = 400 * N + 4000 if m in ("full_shuffle", "swapRandChargeRes") else 6000
                if op.get("fz") == "default":
                    ctx.probe("default_frozen_argument")
                    child = getattr(parent, m)()          # relies on the (mutable) default argument
                elif op.get("kw"):
                    child = getattr(parent, m)(frozen=fz)
                else:
                    child = getattr(parent, m)(fz)
            elif k == "swapres":
                a = int(op["i"] * N) % N
                b = a if op.get("j") is None else int(op["j"] * N) % N
                if a == b:
                    ctx.probe("swapres_same_index")
                where = "swapRes(%d,%d)" % (a, b)
                key_site = "swapRes"
                child = parent.swapRes(a, b)
            elif k == "shuffle_api":
                frozen = resolve_frozen(op, pseq)
                fz = container(frozen, op.get("ft"), op.get("npint"))
                if op.get("npint") and frozen:
                    ctx.probe("frozen_positions_are_numpy_ints")
                where = "get_shuffled_sequence(frozen=%s as %s)" % (op.get("fz"), type(fz).__name__)
                key_site = "get_shuffled_sequence"
                cap[0] = 400 * N + 4000
                ctx.probe("shuffle_api")
                if op.get("fz") == "default":
                    ctx.probe("default_frozen_argument")
                    res = wrap(parent).get_shuffled_sequence()
                elif op.get("kw"):
                    res = wrap(parent).get_shuffled_sequence(frozen=fz)
                else:
                    res = wrap(parent).get_shuffled_sequence(fz)
                child = backend_of(res)
                api_obj = res
                api_results.append(("get_shuffled_sequence", res, res.get_sequence()))
            elif k == "permutant":
                where = "SequencePermutants.get_permutant()"
                key_site = "get_permutant"
                cap[0] = 400 * N + 4000
                ctx.probe("permutant_api")
                if op.get("reuse_permutants", True) and pseq in perm_objs:
                    P = perm_objs[pseq]
                    ctx.probe("permutants_object_reused")
                else:
                    P = SequencePermutants(pseq)
                    perm_objs[pseq] = P
                got = P.get_permutant()
                child = backend_of(got)
                api_obj = got
                api_results.append(("get_permutant", got, got.get_sequence()))
                if len(api_results) > 1:
                    ctx.probe("earlier_api_result_still_held")
                pb = backend_of(P)
                if pb is not None and seq_of(pb) != pseq:
                    raise Violation("parent_altered", "parent_altered:get_permutant", "get_permutant altered its own sequence")
        except DrawCap:
            capped = True
        except Violation:
            raise
        except Exception as e:
            raised = e
        ndraws = sum(r._n for r in made)
        seeds = clock.recorded[reads0:]
        if seeds:
            if last_seed[0] is not None and seeds[0] == last_seed[0]:
                ctx.probe("same_seed_twice")
                ctx.nontrivial = True
            if last_seed[0] is not None and seeds[0] < last_seed[0]:
                ctx.probe("clock_went_back")
                ctx.nontrivial = True
            last_seed[0] = seeds[-1]
        fclass = op.get("fz", "-") if frozen or op.get("fz") else "-"
        ctx.sig(key_site, cls, fclass, warm, plan.get("clock_mode"), mode)
        ctx.log.emit("op", n=n, k=k, site=key_site, parent=pseq, frozen=sorted(set(frozen))[:50], draws=ndraws,
                     child=(seq_of(child) if child is not None else None),
                     raised=type(raised).__name__ if raised else None, capped=capped)
        ctx.count("moves")
        ctx.count("moves_" + key_site)
        if frozen:
            ctx.probe("frozen_nonempty")
            ctx.nontrivial = True
            if len(set(i2 for i2 in frozen if 0 <= i2 < N)) == N:
                ctx.probe("frozen_all")
            if any(i2 >= N for i2 in frozen):
                ctx.probe("frozen_out_of_range")
            if op.get("ft") == "list":
                ctx.probe("frozen_as_list")
            if op.get("ft") in ("tuple", "frozenset", "range", "shared_set"):
                ctx.probe("frozen_as_" + op.get("ft"))
        if warm:
            ctx.probe("cache_warm_before_move")
            ctx.nontrivial = True
        if mode in ("biased", "script") or plan.get("clock_mode") not in ("normal",):
            ctx.nontrivial = True
        if key_site == "swapRandChargeRes" and cls == "mixed" and not frozen:
            ctx.probe("three_types_sample")

        if capped:
            if key_site == "permute_cluster_charges":
                ctx.probe("cluster_draw_cap")
                ctx.count("budget_cluster_move")
                check_parent(parent, before, where, key_site)
                continue
            if key_site == "permute_block_swap":
                raise Violation("move_unbounded", "move_unbounded:permute_block_swap", "%s on %r consumed more than %d draws" % (where, pseq, cap[0]))
            raise Violation("move_unbounded", "move_unbounded:" + key_site, "%s on %r (N=%d) consumed more than %d random draws without returning" % (where, pseq, N, cap[0]))
        if raised is not None and isinstance(raised, Exception) and not isinstance(raised, AssertionError) and op.get("fz") != "default" and (
                op.get("ft") in ("tuple", "frozenset", "range", "shared_set", "list") or op.get("npint") or op.get("fz") == "oor" or op.get("kw")):
            # the move refuses this way of saying which positions are frozen (container type, numpy integers,
            # positions beyond the end, keyword spelling): a refusal is not a broken promise, a silently moved site is
            ctx.probe("frozen_argument_form_refused")
            check_parent(parent, before, where, key_site)
            continue
        if raised is not None:
            key = "move_raised:" + key_site
            msg = "%s on %r (N=%d) raised %r" % (where, pseq, N, raised)
            if key_site == "permute_cluster_charges":
                # the clustering move is not one of "the shuffles and swaps" that must succeed for every sequence:
                # a refusal by name (the package's own SequenceException, whatever its wording) is its right
                if isinstance(raised, Exception) and not isinstance(raised, AssertionError):
                    ctx.probe("cluster_named_refusal")
                    check_parent(parent, before, where, key_site)
                    continue
            if key_site == "permute_block_swap":
                if N < 4 and isinstance(raised, SequenceException):
                    # no two disjoint blocks exist: refusing by name is acceptable (the open finding is the bare ValueError)
                    ctx.probe("block_swap_named_refusal_N_lt_4")
                    check_parent(parent, before, where, key_site)
                    continue
                if N < 4:
                    key += ":N<4"
                    ctx.probe("block_swap_N_lt_4")
                elif isinstance(raised, SequenceException) and (mode == "mt" or ndraws == 99 * 3):
                    key += ":attempt99"
                    ctx.probe("block_swap_attempt_99")
            if key in ctx.open_keys:
                ctx.known[key] = ctx.known.get(key, 0) + 1
                check_parent(parent, before, where, key_site)
                continue
            raise Violation("move_raised", key, msg)
        if child is None and k in ("shuffle_api", "permutant"):
            # the returned wrapper does not expose its backend object: what the statement says about the result can
            # still be judged through its getters; the chain simply does not go on from it
            ctx.probe("api_result_judged_through_getters_only")
            cs = api_obj.get_sequence()
            if sorted(cs) != sorted(pseq):
                raise Violation("not_a_rearrangement", "not_a_rearrangement:" + key_site, "%s of %r returned %r: residues differ" % (where, pseq, cs))
            if k == "shuffle_api":
                moved = [i2 for i2 in frozen if 0 <= i2 < len(pseq) and (i2 >= len(cs) or cs[i2] != pseq[i2])]
                if moved:
                    raise Violation("frozen_moved", "frozen_moved:" + key_site, "%s of %r with frozen=%r returned %r: frozen position(s) %r changed" % (where, pseq, sorted(frozen)[:12], cs, moved[:8]))
            check_parent(parent, before, where, key_site)
            continue
        if child is None:
            raise Violation("move_raised", "move_returned_none:" + key_site, "%s returned None" % where)
        if light:
            ctx.probe("light_op_checked_at_next_sweep")
            cs = seq_of(child)
            if sorted(cs) != sorted(pseq):
                raise Violation("not_a_rearrangement", "not_a_rearrangement:" + key_site, "%s of %r returned %r: residues differ" % (where, pseq, cs))
            moved = [i2 for i2 in frozen if 0 <= i2 < len(pseq) and (i2 >= len(cs) or cs[i2] != pseq[i2])]
            if moved:
                key = "frozen_moved:" + key_site
                if key in ctx.open_keys:
                    ctx.known[key] = ctx.known.get(key, 0) + 1
                else:
                    raise Violation("frozen_moved", key, "%s of %r with frozen=%r returned %r: frozen position(s) %r changed" % (where, pseq, sorted(set(frozen)), cs, moved))
            add(child, i, cs)
            continue
        check_child(k, before, child, frozen, where, bool(op.get("panel")), key_site, parent_warm=warm)
        if warm or op.get("panel"):
            warm_objs.add(id(child))
        check_parent(parent, before, where, key_site)
        add(child, i)
    sweep("end of chain")
    ctx.sim_seconds += clock.covered()
    ctx.count("ops", len(plan["ops"]))
    ctx.count("clock_reads", clock.reads)


def shrink(plan, res):
    for c in list_candidates(plan, "ops"):
        yield c
    if plan.get("clock_mode") != "normal":
        c = copy.deepcopy(plan)
        c["clock_mode"] = "normal"
        yield c
    if plan.get("rng_mode") in ("biased",):
        c = copy.deepcopy(plan)
        c["rng_mode"] = "tape"
        yield c
    if len(plan["roots"]) > 1:
        for i in range(len(plan["roots"])):
            c = copy.deepcopy(plan)
            del c["roots"][i]
            yield c
    for i, s in enumerate(plan["roots"]):
        if len(s) > 1:
            for cut in (s[:len(s) // 2], s[len(s) // 2:], s[:-1], s[1:]):
                if cut and cut != s:
                    c = copy.deepcopy(plan)
                    c["roots"][i] = cut
                    yield c
    for n, op in enumerate(plan["ops"]):
        if op.get("fz") not in (None, "none"):
            c = copy.deepcopy(plan)
            c["ops"][n]["fz"] = "none"
            yield c
        if op.get("panel"):
            c = copy.deepcopy(plan)
            c["ops"][n]["panel"] = False
            yield c
        if op.get("o", 0) not in (0, -1):
            c = copy.deepcopy(plan)
            c["ops"][n]["o"] = 0
            yield c

"""Process-global configuration the embedding program may have chosen before it calls the library.
A run is hermetic (its own forked interpreter), so a mode can simply be switched on at the start of
the run.  Only settings under which the *unchanged* library keeps all six properties are offered:
they are legal configurations, not faults."""
import os
import sys

MODES = ("default", "np_print_small", "verbose", "all_submodules_imported")


def choose(rnd, p=0.22, extra=()):
    if rnd.random() >= p:
        return "default"
    return rnd.choice(MODES[1:])


def apply(mode, ctx):
    if not mode or mode == "default":
        return
    ctx.probe("env_" + mode)
    ctx.log.emit("env", mode=mode)
    try:
        _apply(mode, ctx)
    except BaseException as e:        # a package laid out differently: the mode is simply not available
        ctx.probe("env_mode_unavailable")


def _apply(mode, ctx):
    if mode == "userwarning_error":
        # e.g. pytest's `filterwarnings = error::UserWarning`, or `python -W error::UserWarning`
        import warnings
        warnings.filterwarnings("error", category=UserWarning)
    elif mode == "np_print_small":
        import numpy as np
        np.set_printoptions(threshold=4, edgeitems=1, precision=2)
    elif mode == "np_err_raise":
        # numpy floating-point errors raise instead of warning (offered only to the checks whose code paths
        # the unchanged library keeps free of 0/0 and overflow: not to the Wang-Landau check)
        import numpy as np
        np.seterr(all="raise")
    elif mode == "verbose":
        # the package's own verbosity switches (backend/config.py) turned on; its chatter goes nowhere
        import localcider.backend.backendtools as bt
        import localcider.backend.config as cfg
        for m in (bt, cfg):
            for name in ("HUSH_ALL", "HUSH_STATUS", "HUSH_WARNINGS"):
                if hasattr(m, name):
                    setattr(m, name, False)
        sys.stdout = open(os.devnull, "w")
    elif mode == "all_submodules_imported":
        import importlib
        import pkgutil
        import localcider
        for info in pkgutil.walk_packages(localcider.__path__, "localcider."):
            last = info.name.split(".")[-1]
            if ".tests" in info.name or last.startswith("build") or last == "__main__":
                continue          # tests, a generator script that computes for minutes when imported, CLI entry points
            try:
                importlib.import_module(info.name)
            except BaseException:
                pass

"""Seeded generators shared by the property modules (sequences, classes)."""

AA = "ACDEFGHIKLMNPQRSTVWY"
POS = "KR"
NEG = "DE"
NEUT = "ACFGHILMNPQSTVWY"

CLASSES = ("idp", "polyampholyte", "polyelectrolyte", "lowcomplexity", "nocharge", "uniform",
           "sty_rich", "onecharge")


def gen_seq(rnd, n, cls=None):
    if cls is None:
        cls = rnd.choice(CLASSES)
    if cls == "idp":
        alpha = "GSPQNEKDRTA" * 3 + AA
    elif cls == "polyampholyte":
        alpha = "KKKEEEDDRRG" + "S"
    elif cls == "polyelectrolyte":
        alpha = rnd.choice(("KKKKRRRGS", "EEEEDDDGS", "KKKKKKKKE", "EEEEEEEEK"))
    elif cls == "lowcomplexity":
        k = rnd.randrange(1, 4)
        alpha = "".join(rnd.choice(AA) for _ in range(k))
    elif cls == "nocharge":
        alpha = NEUT
    elif cls == "sty_rich":
        alpha = "SSTTYY" + "GKEA"
    elif cls == "onecharge":
        alpha = rnd.choice(POS + NEG) + NEUT[:rnd.randrange(1, 6)]
    else:
        alpha = AA
    return "".join(rnd.choice(alpha) for _ in range(n))


def seq_class_of(s):
    p = sum(1 for c in s if c in POS)
    m = sum(1 for c in s if c in NEG)
    if p == 0 and m == 0:
        return "nocharge"
    if p == 0 or m == 0:
        return "onesign"
    if p + m == len(s):
        return "allcharged"
    return "mixed"


def weighted(rnd, pairs):
    tot = sum(w for _, w in pairs)
    x = rnd.random() * tot
    for v, w in pairs:
        x -= w
        if x < 0:
            return v
    return pairs[-1][0]

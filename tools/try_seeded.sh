#!/bin/sh
# usage: tools/try_seeded.sh <PROP> <patch.diff> <demo.py> [check-args...]
# Confirms a seeded change in a scratch copy (never in /repo): tests keep 42 passes, demo fails with / passes without,
# then runs the property's quick check against the scratch copy.
PROP=$1; PATCH=$2; DEMO=$3; shift 3
S=/tmp/seedtry_$$
rm -rf $S && mkdir -p $S && git -C /repo archive HEAD | tar -x -C $S
cd $S && git init -q . 2>/dev/null && git apply --whitespace=nowarn "$PATCH" || { echo "PATCH DOES NOT APPLY"; rm -rf $S; exit 2; }
echo "--- tests with the change:"
(cd $S && /venv/bin/python -m pytest -q -p no:cacheprovider --timeout=900 --continue-on-collection-errors 2>&1 | tail -1)
# demos that hard-code the path of the worktree they were written in are run there (WT=<worktree>)
if [ -n "$WT" ]; then
  echo "--- demo with the change (in its worktree $WT):"
  (cd $WT && git apply --whitespace=nowarn "$PATCH" && PYTHONPATH=$WT /venv/bin/python "$DEMO" >/tmp/seed_demo_with_$$.txt 2>&1; echo "exit=$?"; tail -2 /tmp/seed_demo_with_$$.txt | cut -c1-200; git checkout -q -- . )
  echo "--- demo on the unchanged tree (in its worktree):"
  (cd $WT && PYTHONPATH=$WT /venv/bin/python "$DEMO" >/tmp/seed_demo_without_$$.txt 2>&1; echo "exit=$?"; tail -1 /tmp/seed_demo_without_$$.txt | cut -c1-200)
else
echo "--- demo with the change:"
(cd $S && PYTHONPATH=$S /venv/bin/python "$DEMO" >/tmp/seed_demo_with_$$.txt 2>&1; echo "exit=$?"; tail -2 /tmp/seed_demo_with_$$.txt | cut -c1-200)
echo "--- demo on the unchanged tree:"
(cd /tmp && PYTHONPATH=/repo /venv/bin/python "$DEMO" >/tmp/seed_demo_without_$$.txt 2>&1; echo "exit=$?"; tail -1 /tmp/seed_demo_without_$$.txt | cut -c1-200)
fi
echo "--- ./check $PROP against the change:"
cd /verif && ./check $PROP --repo $S --no-evidence "$@" 2>&1 | grep -E "^violation|^VIOLATION|^HARNESS|^KNOWN|runs=" | cut -c1-500
rm -rf $S /tmp/seed_demo_with_$$.txt /tmp/seed_demo_without_$$.txt

"""C15 — read-only queries are history-independent and never change the object.

The quantifier is over histories.  The simulator drives several live objects
through seeded interleavings of read-only calls (valid and failing), with
low-weight mutators and shuffles as noise, and compares every returned value
with the same call on a fresh object in a pristine forked interpreter that has
only replayed that object's mutators (dst/oracle_fork.py).
"""
import copy
import json

from .. import envmode
from ..kernel import Violation, Discard, cjson
from ..kernel import quiet_print as _quiet_print
from ..gen import gen_seq, AA, gen_special, gen_two_digit_counts, concat_collision, same_classes_other_letters
from ..clock import SimClock
from ..rng import RngModule, MTRandom, TapeRandom, UniformDriver
from ..simfs import SimFS
from ..oracle_fork import ForkOracle, apply_op, dec, scribble
from ..minimise import list_candidates

ID = "C15"
LEVEL = "exploration"
TIERS = {
    "quick": {"runs": 1400, "wall_cap": 170, "timeout": 400, "dups": 12},
    "thorough": {"runs": 40000, "wall_cap": 1750, "timeout": 400, "dups": 48},
}
RULE = ("Each run is a seeded history (5-40 calls) over 1-4 live SequenceParameters objects (built from strings, from SimFS files, or as "
        "children of get_shuffled_sequence; N 1-60): the whole get_* catalogue with seeded arguments incl. invalid ones (window > N, pH 15, "
        "unknown complexity type, non-amino-acid group, alphabet size 7), len, str, HTML string; low-weight mutators (phosphosites, palette) "
        "only vary the state under which queries run. The scheduler is biased toward value-then-permutant, permutant-then-value, "
        "kappa/Omega/kappa_X before delta-max, repeated default-argument calls, a failing call right before a succeeding one, same call on A then B. "
        "Every returned value is compared exactly with the pristine-fork oracle. Non-trivial: >=2 distinct query kinds preceded the compared call "
        "on the same object or another object was queried in between; distinct = distinct event-log digests of such runs.")
SIG_RULE = "abstract object state (dmax cached, permutant cached, composition default used, sites set, palette custom) x previous op kind x op kind"
REAL = ["the whole SequenceParameters / Sequence / SequenceComplexity query surface", "numpy"]
STUBBED = ["nothing inside the queries; sequence.time/rng (SimClock, TapeRandom) only for the get_shuffled_sequence noise op; seqfileparser.open -> SimFS for file-built objects; print -> sink"]
ASSUMPTIONS = ["values are deterministic functions of (sequence, mutators, arguments), so equality is exact (floats by repr, arrays as shape+list, exceptions by type name)",
               "fork() yields a pristine interpreter image for the oracle; the oracle server itself never runs library code",
               "arguments are rebuilt from JSON for every call so no argument object is shared between calls (caller-owned lists are mutated by the code; sharing them would be the harness's aliasing)",
               "calls are atomic (no pre-emption inside a call)"]
PROBES = ["caller_scribbles_on_returned_container", "object_created_mid_history", "permutant_after_value", "value_after_permutant", "kappa_family_before_dmax", "default_composition_repeated", "failing_then_succeeding",
          "same_op_on_A_then_B", "query_after_mutator", "file_built_object", "shuffle_child_queried", "invalid_argument_call",
          "oracle_requests", "phospho_distribution_compared", "complexity_call", "user_alphabet_call"]

NOARG = ["get_sequence", "get_length", "get_mean_hydropathy", "get_uversky_hydropathy", "get_WW_hydropathy", "get_fraction_disorder_promoting",
         "get_amino_acid_fractions", "get_SCD", "get_kappa", "get_Omega", "get_Omega_sequence", "get_deltaMax", "get_delta", "get_countPos",
         "get_countNeg", "get_countNeut", "get_fraction_positive", "get_fraction_negative", "get_isoelectric_point", "get_molecular_weight",
         "get_phasePlotRegion", "get_HTMLColorString", "get_phosphosites", "get_phosphosequence", "get_kappa_after_phosphorylation",
         "get_all_phosphorylatable_sites", "get_full_phosphostatus_kappa_distribution", "__len__", "__str__"]
KAPPA_FAMILY = ("get_kappa", "get_Omega", "get_kappa_X", "get_kappa_after_phosphorylation", "get_full_phosphostatus_kappa_distribution")
MUTATORS = ("set_phosphosites", "clear_phosphosites", "set_HTMLColorResiduePalette")
COLOURS = ['aqua', 'black', 'blue', 'fuchsia', 'gray', 'green', 'lime', 'maroon', 'navy', 'olive', 'orange', 'purple', 'red', 'silver', 'teal', 'white', 'yellow']
ALPHA_SIZES = (2, 3, 4, 5, 6, 8, 10, 11, 12, 15, 18, 20)


def gen_group(rnd, invalid=False):
    if invalid:
        return rnd.choice((["X"], ["E", "B"], [1], ["EE"], "EDX", [""]))
    c = rnd.random()
    if c < 0.3:
        g = rnd.choice((["E", "D"], ["K", "R"], ["P", "E", "D", "K", "R"], ["e", "d"], ["S", "T", "Y"], ["G"], ["E"], ["D"], ["K"], ["R"]))
    else:
        g = rnd.sample(list(AA), rnd.randrange(1, 7))
    f = rnd.random()
    if f < 0.12:
        return {"__tuple__": g}                       # groups are "lists of residues": tuples, strings and sets iterate the same way
    if f < 0.2:
        return "".join(g)
    if f < 0.3:
        return {"__shared__": "grp", "value": g}      # one list object kept by the caller and edited in place between calls
    return g


def gen_alphabet(rnd, invalid=False):
    reps = rnd.sample(list(AA), rnd.randrange(1, 6))
    d = {a: rnd.choice(reps) for a in AA}
    if invalid:
        if rnd.random() < 0.5:
            del d[rnd.choice(list(AA))]
        else:
            d[rnd.choice(list(AA))] = rnd.choice(("x", "B", "1"))
    return d


def gen_query(rnd, N, p_invalid):
    """One read-only call: [name, args, kwargs]."""
    inv = rnd.random() < p_invalid
    x = rnd.random()
    if x < 0.40:
        return [rnd.choice(NOARG), [], {}]
    if x < 0.47:
        flag = rnd.choice((True, True, True, 1, 2))          # any truthy flag asks for the permutant
        return ["get_deltaMax", [flag], {}] if rnd.random() < 0.5 else ["get_deltaMax", [], {"returnSeqDeltaMax": flag}]
    if x < 0.55:
        name = rnd.choice(("get_FCR", "get_fraction_expanding", "get_NCPR", "get_mean_net_charge"))
        ph = rnd.choice((-1, 15, 14.01, -0.5)) if inv else rnd.choice((0, 7, 7.4, 14, 3.3, 10.5, None))
        if ph is None:
            return [name, [], {}]
        return [name, [ph], {}] if rnd.random() < 0.5 else [name, [], {"pH": ph}]
    if x < 0.62:
        if rnd.random() < 0.5:
            return ["get_kappa_X", [gen_group(rnd, inv)], {}]
        g1, g2 = gen_group(rnd), gen_group(rnd, inv)
        if rnd.random() < 0.3 and isinstance(g1, list) and isinstance(g2, list) and g2:
            g1 = g1 + g2[:1]                                  # overlapping groups
        return ["get_kappa_X", [g1, g2], {}]
    if x < 0.65:
        return ["get_PPII_propensity", [rnd.choice(("foo", "")) if inv else rnd.choice(("hilser", "creamer", "kallenbach", "HILSER"))], {}]
    if x < 0.76:
        name = rnd.choice(("get_linear_sigma", "get_linear_NCPR", "get_linear_FCR", "get_linear_hydropathy"))
        w = rnd.choice((N + 1, N + 3, 0)) if inv else rnd.randrange(1, max(2, N + 1))
        return [name, [w], {}] if rnd.random() < 0.7 else [name, [], ({"blobLen": w} if rnd.random() < 0.5 else {})]
    if x < 0.84:
        w = rnd.choice((N + 1, N + 2)) if inv and rnd.random() < 0.5 else rnd.randrange(1, max(2, N + 1))
        c = rnd.random()
        if c < 0.6:
            return ["get_linear_sequence_composition", [w], {}]
        grps = [gen_group(rnd, inv and rnd.random() < 0.5) for _ in range(rnd.randrange(1, 4))]
        return ["get_linear_sequence_composition", [w, grps], {}] if c < 0.8 else ["get_linear_sequence_composition", [], {"blobLen": w, "grps": grps}]
    if x < 0.90:
        size = rnd.choice((7, 1, 21, 0)) if inv and rnd.random() < 0.6 else rnd.choice(ALPHA_SIZES)
        if rnd.random() < 0.3:
            ua = gen_alphabet(rnd, inv)
            if rnd.random() < 0.5:
                ua = {"__shared__": "ua", "value": ua}      # the caller reuses one dict object, edited in place
            return ["get_reduced_alphabet_sequence", [size, ua], {}]
        return ["get_reduced_alphabet_sequence", [size], {}] if rnd.random() < 0.8 else ["get_reduced_alphabet_sequence", [], {}]
    t = rnd.choice(("XX", "rhp", 3)) if inv and rnd.random() < 0.3 else rnd.choice(("WF", "LC", "LZW", "wf", "lc"))
    size = 7 if inv and rnd.random() < 0.3 else rnd.choice(ALPHA_SIZES)
    w = N + 2 if inv and rnd.random() < 0.4 else rnd.randrange(1, max(2, min(N, 15) + 1))
    kw = {"complexityType": t, "alphabetSize": size, "blobLen": w}
    if rnd.random() < 0.3:
        kw["stepSize"] = rnd.choice((1, 2, 3, 3, 10, 12, 21))
    if rnd.random() < 0.3:
        kw["wordSize"] = rnd.choice((1, 2, 3, 4, 11, 12))
    if rnd.random() < 0.2:
        kw["userAlphabet"] = gen_alphabet(rnd, inv and rnd.random() < 0.5)
        if rnd.random() < 0.5:
            kw["userAlphabet"] = {"__shared__": "ua", "value": kw["userAlphabet"]}
    return ["get_linear_complexity", [], kw]


def gen_mutator(rnd, seq):
    N = len(seq)
    x = rnd.random()
    if x < 0.55:
        sty = [i + 1 for i, c in enumerate(seq) if c in "STY"]
        v = [rnd.choice(sty) if sty and rnd.random() < 0.7 else rnd.randrange(-1, N + 3) for _ in range(rnd.randrange(1, 4))]
        return ["set_phosphosites", [v], {}]
    if x < 0.7:
        return ["clear_phosphosites", [], {}]
    pal = {a: rnd.choice(COLOURS) for a in AA}
    if rnd.random() < 0.3:
        pal[rnd.choice(list(AA))] = "pink"
    return ["set_HTMLColorResiduePalette", [pal], {}]


PATTERNS = (
    [["get_kappa", [], {}], ["get_deltaMax", [True], {}]],
    [["get_deltaMax", [], {}], ["get_deltaMax", [True], {}], ["get_deltaMax", [], {}]],
    [["get_deltaMax", [True], {}], ["get_kappa", [], {}], ["get_deltaMax", [True], {}]],
    [["get_Omega", [], {}], ["get_deltaMax", [True], {}], ["get_kappa", [], {}]],
    [["get_kappa_X", [["E", "D"], ["K", "R"]], {}], ["get_deltaMax", [], {}], ["get_kappa", [], {}]],
    [["get_linear_sequence_composition", [3], {}], ["get_linear_sequence_composition", [3], {}], ["get_linear_sequence_composition", [2, [["A"], ["K", "E"]]], {}],
     ["get_linear_sequence_composition", [3], {}]],
    [["get_linear_NCPR", [10 ** 6], {}], ["get_linear_NCPR", [2], {}]],
    [["get_FCR", [15], {}], ["get_FCR", [7], {}], ["get_FCR", [], {}]],
    [["get_linear_complexity", [], {"complexityType": "XX"}], ["get_linear_complexity", [], {"blobLen": 2}]],
    [["get_reduced_alphabet_sequence", [7], {}], ["get_reduced_alphabet_sequence", [8], {}], ["get_reduced_alphabet_sequence", [], {}]],
    [["get_kappa_after_phosphorylation", [], {}], ["get_kappa", [], {}], ["get_full_phosphostatus_kappa_distribution", [], {}]],
    [["get_kappa_X", [["E", "D"], ["K", "D"]], {}], ["get_kappa_X", [["K", "D"], ["E", "D"]], {}], ["get_kappa_X", [["E", "D"]], {}],
     ["get_kappa_X", [["E", "D"], ["E", "D"]], {}], ["get_kappa_X", [["K", "R"], ["E", "D"]], {}], ["get_kappa_X", [["E", "D"], ["K", "R"]], {}]],
    [["get_deltaMax", [1], {}], ["get_deltaMax", [], {}], ["get_deltaMax", [1], {}], ["get_deltaMax", [True], {}], ["get_deltaMax", [1], {}]],
    [["get_linear_complexity", [], {"blobLen": 1, "stepSize": 12}], ["get_linear_complexity", [], {"blobLen": 11, "stepSize": 2}],
     ["get_linear_complexity", [], {"complexityType": "LC", "blobLen": 2, "stepSize": 1, "wordSize": 12}], ["get_linear_complexity", [], {"complexityType": "LC", "blobLen": 2, "stepSize": 11, "wordSize": 2}]],
    [["get_kappa", [], {}], ["get_kappa_X", [["E"], ["K"]], {}], ["get_kappa_X", [["D"], ["R"]], {}], ["get_kappa_X", [["E", "D"], ["K", "R"]], {}]],
    [["get_SCD", [], {}], ["get_linear_NCPR", [2], {}], ["get_SCD", [], {}]],
    [["get_isoelectric_point", [], {}], ["get_NCPR", [7.0], {}], ["get_mean_net_charge", [3.5], {}], ["get_FCR", [10.5], {}], ["get_fraction_expanding", [7.0], {}]],
    [["get_NCPR", [7.0], {}], ["get_FCR", [3.5], {}], ["get_isoelectric_point", [], {}], ["get_NCPR", [7.0], {}]],
    [["get_linear_sigma", [3], {}], ["get_linear_FCR", [3], {}], ["get_linear_NCPR", [3], {}], ["get_linear_sigma", [3], {}]],
    [["get_reduced_alphabet_sequence", [20, {"__shared__": "ua", "value": {a: a for a in AA}}], {}],
     ["get_reduced_alphabet_sequence", [20, {"__shared__": "ua", "value": {a: ("L" if a in "LVIMC" else "K") for a in AA}}], {}],
     ["get_linear_complexity", [], {"complexityType": "WF", "blobLen": 2, "userAlphabet": {"__shared__": "ua", "value": {a: ("E" if a in "DE" else "G") for a in AA}}}]],
)


def gen_plan(streams, tier):
    rnd = streams.stream("plan")
    nobj = rnd.choice((1, 2, 2, 3, 4))
    objs = []
    for _ in range(nobj):
        n = rnd.choice((rnd.randrange(1, 6), rnd.randrange(5, 20), rnd.randrange(15, 40), rnd.randrange(30, 61)))
        how = "file" if rnd.random() < 0.15 else "string"
        objs.append({"seq": gen_special(rnd) if rnd.random() < 0.08 else gen_seq(rnd, n), "how": how})
    if nobj > 1:
        x = rnd.random()
        s0 = objs[0]["seq"]
        if x < 0.2:
            objs[1] = dict(objs[0])        # same string twice: a value cached on A must not leak to B
        elif x < 0.4:                      # same composition, different order
            l = list(s0)
            rnd.shuffle(l)
            objs[1] = {"seq": "".join(l), "how": "string"}
        elif x < 0.55:                     # same length, different composition
            objs[1] = {"seq": gen_seq(rnd, len(s0)), "how": "string"}
        elif x < 0.65:                     # one substitution
            j = rnd.randrange(len(s0))
            objs[1] = {"seq": s0[:j] + rnd.choice(AA) + s0[j + 1:], "how": "string"}
        elif x < 0.85 and len(s0) <= 30:   # tandem repeat / proportional composition: same fractions, different counts
            k = rnd.choice((2, 2, 3))
            rep = s0 * k
            if rnd.random() < 0.5:
                l = list(rep)
                rnd.shuffle(l)
                rep = "".join(l)
            objs[1] = {"seq": rep, "how": "string"}
            if nobj > 2 and rnd.random() < 0.5:
                objs[2] = {"seq": s0 * (5 - k), "how": "string"}
    if nobj > 1 and rnd.random() < 0.1:
        a0 = gen_two_digit_counts(rnd)
        objs[0] = {"seq": a0, "how": "string"}
        objs[1] = {"seq": concat_collision(rnd, a0) or same_classes_other_letters(rnd, a0), "how": "string"}
    elif nobj > 1 and rnd.random() < 0.1:
        objs[1] = {"seq": same_classes_other_letters(rnd, objs[0]["seq"]), "how": "string"}
    p_invalid = rnd.choice((0.0, 0.15, 0.4))
    p_mut = rnd.choice((0.0, 0.05, 0.15))
    p_pattern = rnd.choice((0.1, 0.3))
    ops = []
    nops = rnd.randrange(5, 41)
    lens = [len(od["seq"]) for od in objs]
    strs = [od["seq"] for od in objs]
    while len(ops) < nops:
        o = rnd.randrange(len(lens))
        if len(lens) > nobj and rnd.random() < 0.3:
            o = len(lens) - 1
        N = lens[o]
        x = rnd.random()
        if x < p_pattern:
            pat = copy.deepcopy(rnd.choice(PATTERNS))
            two = len(lens) > 1 and rnd.random() < 0.4
            for q in pat:
                ops.append({"o": o, "q": q})
                if two:
                    ops.append({"o": (o + 1) % len(lens), "q": copy.deepcopy(q)})
        elif x < p_pattern + p_mut:
            ops.append({"o": o, "m": gen_mutator(rnd, strs[o])})
        elif x < p_pattern + p_mut + 0.02 and len(lens) > 1:
            # the same argument-free query on every live object, one after the other
            name = rnd.choice(NOARG)
            for oo in range(len(lens)):
                ops.append({"o": oo, "q": [name, [], {}]})
        elif x < p_pattern + p_mut + 0.05 and len(lens) < 7:
            # a new object appears in the middle of the history: same string as a live one, a permutation, a tandem repeat, or unrelated
            base = strs[o]
            kind = rnd.choice(("same", "perm", "double", "fresh"))
            if kind == "perm":
                l = list(base); rnd.shuffle(l); ns = "".join(l)
            elif kind == "double" and len(base) <= 30:
                ns = base * 2
            elif kind == "fresh":
                ns = gen_seq(rnd, rnd.randrange(1, 40))
            else:
                ns = base
            ops.append({"new": {"seq": ns, "how": "file" if rnd.random() < 0.2 else "string"}})
            lens.append(len(ns))
            strs.append(ns)
        elif x < p_pattern + p_mut + 0.13:
            ops.append({"o": o, "shuffle": {"fz": sorted(rnd.sample(range(N), rnd.randrange(0, N))) if rnd.random() < 0.5 else []}})
            lens.append(N)
            strs.append(strs[o])
        elif x < p_pattern + p_mut + 0.16:
            # the same query on both sides of one or two mutators of that object (a value remembered by the
            # first call must not be handed out again once the object has changed)
            if rnd.random() < 0.6:
                q = [rnd.choice(("get_full_phosphostatus_kappa_distribution", "get_kappa_after_phosphorylation", "get_phosphosequence",
                                 "get_phosphosites", "get_HTMLColorString", "get_all_phosphorylatable_sites")), [], {}]
            else:
                q = gen_query(rnd, N, 0.0)
            ops.append({"o": o, "q": copy.deepcopy(q)})
            for _ in range(rnd.choice((1, 1, 2))):
                m = gen_mutator(rnd, strs[o])
                if m[0] == "clear_phosphosites" and rnd.random() < 0.7:
                    m = gen_mutator(rnd, strs[o])
                ops.append({"o": o, "m": m})
                ops.append({"o": o, "q": copy.deepcopy(q)})
        else:
            q = gen_query(rnd, N, p_invalid)
            ops.append({"o": o, "q": q})
            if q[0] == "get_kappa_X" and len(q[1]) == 2 and rnd.random() < 0.5:
                ops.append({"o": o, "q": ["get_kappa_X", [copy.deepcopy(q[1][1]), copy.deepcopy(q[1][0])], {}]})
            elif q[0] == "get_kappa_X" and len(q[1]) == 1 and rnd.random() < 0.3:
                ops.append({"o": o, "q": ["get_kappa_X", [copy.deepcopy(q[1][0]), copy.deepcopy(q[1][0])], {}]})
            elif q[0] == "get_linear_complexity" and rnd.random() < 0.4:
                # relatives whose integer arguments read the same when glued together: (1, 12) vs (11, 2), (12, 1) vs (1, 21)
                kw = q[2]
                b, st_, w_ = kw.get("blobLen", 10), kw.get("stepSize", 1), kw.get("wordSize", 3)
                digits = "%d%d" % (b, st_)
                for cut in range(1, len(digits)):
                    b2, s2 = digits[:cut], digits[cut:]
                    if s2[0] != "0" and (int(b2), int(s2)) != (b, st_) and 1 <= int(b2) <= max(1, N):
                        kw2 = dict(copy.deepcopy(kw), blobLen=int(b2), stepSize=int(s2))
                        ops.append({"o": o, "q": ["get_linear_complexity", [], kw2]})
                        break
    if rnd.random() < 0.25:
        # closing round: a handful of argument-free queries asked of every live object in turn
        for name in rnd.sample(NOARG, 10):
            for oo in range(len(lens)):
                ops.append({"o": oo, "q": [name, [], {}]})
    p_scribble = rnd.choice((0.0, 0.0, 0.15, 0.4))
    p_post = rnd.choice((0.0, 0.3, 1.0))
    for op in ops:
        if "q" in op:
            if rnd.random() < p_scribble:
                op["scribble"] = True        # the caller edits the returned container in place
            if rnd.random() < p_post:
                op["post"] = True            # look at the stored sequence and site list right after this query
    return {"property": ID, "env": envmode.choose(rnd, extra=("np_err_raise",)), "run_seed": streams.run_seed, "objects": objs, "ops": ops}


def corpus():
    out = []

    def mk(name, objs, ops):
        out.append((name, {"property": ID, "run_seed": 150 + len(out), "objects": [{"seq": s, "how": "string"} for s in objs], "ops": ops}))
    mk("kappa_then_permutant", ["GKKKKKKKGSEEEEEEES"], [{"o": 0, "q": ["get_kappa", [], {}]}, {"o": 0, "q": ["get_deltaMax", [True], {}]},
                                                      {"o": 0, "q": ["get_deltaMax", [], {}]}, {"o": 0, "q": ["get_deltaMax", [], {"returnSeqDeltaMax": True}]}])
    mk("all_patterns_two_objects", ["MKEGSTYKEDDRRGSPAAKE", "STYSTYKKEE"],
       [{"o": o, "q": copy.deepcopy(q)} for pat in PATTERNS for q in pat for o in (0, 1)])
    mk("every_noarg_getter_twice", ["MSEKKTYDDRGSPLLKE"], [{"o": 0, "q": [n, [], {}]} for n in NOARG] + [{"o": 0, "q": [n, [], {}]} for n in reversed(NOARG)])
    mk("queries_around_mutators", ["SKTEYKSETGGKE"], [{"o": 0, "q": ["get_kappa", [], {}]}, {"o": 0, "m": ["set_phosphosites", [[1, 3, 5]], {}]},
                                                      {"o": 0, "q": ["get_kappa_after_phosphorylation", [], {}]}, {"o": 0, "q": ["get_kappa", [], {}]},
                                                      {"o": 0, "q": ["get_full_phosphostatus_kappa_distribution", [], {}]}, {"o": 0, "q": ["get_phosphosites", [], {}]},
                                                      {"o": 0, "m": ["clear_phosphosites", [], {}]}, {"o": 0, "q": ["get_phosphosequence", [], {}]},
                                                      {"o": 0, "q": ["get_deltaMax", [True], {}]}])
    mk("monomer_dimer_trimer", ["GKEGSTKEDP", "GKEGSTKEDP" * 2, "GKEGSTKEDP" * 3],
       [{"o": o, "q": [n, [], {}]} for n in ("get_deltaMax", "get_kappa", "get_Omega", "get_SCD", "get_isoelectric_point") for o in (0, 1, 2)] +
       [{"o": o, "q": ["get_kappa_X", [["E", "D"], ["K", "R"]], {}]} for o in (2, 1, 0)] + [{"o": o, "q": ["get_deltaMax", [True], {}]} for o in (1, 0, 2)])
    mk("shuffle_child_then_permutant", ["GKEGKEGKEGKEGSTY"], [{"o": 0, "q": ["get_kappa", [], {}]}, {"o": 0, "shuffle": {"fz": [0, 1]}},
                                                              {"o": 1, "q": ["get_deltaMax", [True], {}]}, {"o": 1, "q": ["get_kappa", [], {}]},
                                                              {"o": 0, "q": ["get_deltaMax", [True], {}]}])
    return out


def execute(plan, ctx):
    import localcider.backend.sequence as seqmod
    import localcider.backend.seqfileparser as sfp
    import localcider.sequenceParameters as spmod
    from localcider.sequenceParameters import SequenceParameters

    envmode.apply(plan.get("env"), ctx)
    def sinks():
        import localcider.sequenceParameters as spm
        spm.print = _quiet_print
    # the oracle is forked before anything of the history has run
    oracle = ForkOracle(sinks)
    fsbox = []
    try:
        return _run(plan, ctx, oracle, seqmod, sfp, spmod, SequenceParameters, fsbox)
    finally:
        ctx.probe("oracle_requests", oracle.requests)
        oracle.close()
        for f in fsbox:
            f.cleanup()


def _run(plan, ctx, oracle, seqmod, sfp, spmod, SequenceParameters, fsbox):
    spmod.print = _quiet_print
    clock = SimClock(ctx, ctx.streams.stream("clock"), "normal")
    driver = UniformDriver(ctx.streams.stream("tape"))
    seqmod.time = clock
    seqmod.rng = RngModule(lambda: MTRandom("move", ctx, 10 ** 7))
    fs = SimFS(ctx, prefix="dst_c15_")
    fsbox.append(fs)
    sfp.open = fs.open

    objs, seqs, muts, sites, state, last_kind = [], [], [], [], [], []

    def add(o, s, tag):
        objs.append(o)
        seqs.append(s)
        muts.append([])
        sites.append([])
        state.append({"dmax": False, "perm": False, "comp": False, "pal": False, "tag": tag})
        last_kind.append("-")

    for i, od in enumerate(plan["objects"]):
        s = od["seq"]
        if od.get("how") == "file":
            path = fs.path("/sim/o%d.fasta" % i)
            fs.write_file(path, (">obj%d\n" % i + "\n".join(s[j:j + 7] for j in range(0, len(s), 7)) + "\n").encode())
            add(SequenceParameters(sequenceFile=path), s, "file")
            ctx.probe("file_built_object")
        else:
            add(SequenceParameters(s), s, "string")
    memo = {}
    unjudged = set()
    scribbled = {}

    def flat(v):
        out = [v]
        if isinstance(v, (list, tuple)):
            for x in v:
                out.extend(flat(x))
        return [x for x in out if isinstance(x, (list, dict)) or type(x).__name__ == "ndarray"]

    def look_sites(obj):
        """the harness's own look at the site list; a container the caller had edited and that is handed out again
        says nothing about the object (whether results are private copies is not said by the statement)"""
        raw = obj.get_phosphosites()
        if any(id(x) in scribbled for x in flat(raw)):
            raise Discard("a container the caller had edited was handed out again (whether results are private copies is not said)")
        out = []
        for x in raw:
            try:
                out.append(int(x))
            except Exception:
                out.append(x)
        return out
    kinds_seen = [set() for _ in objs]
    last_obj = [None]
    prev_q = [None]

    def oracle_value(i, q):
        key = cjson([seqs[i], muts[i], q])
        if key not in memo:
            memo[key] = oracle.ask(seqs[i], muts[i], q)
        return memo[key]

    def build(od, tagn):
        s_ = od["seq"]
        if od.get("how") == "file":
            path = fs.path("/sim/n%d.fasta" % tagn)
            fs.write_file(path, (">obj\n" + "\n".join(s_[j:j + 7] for j in range(0, len(s_), 7)) + "\n").encode())
            add(SequenceParameters(sequenceFile=path), s_, "file")
        else:
            add(SequenceParameters(s_), s_, "string")
        kinds_seen.append(set())

    for n, op in enumerate(plan["ops"]):
        if "new" in op:
            build(op["new"], n)
            ctx.probe("object_created_mid_history")
            ctx.log.emit("new", seq=op["new"]["seq"])
            continue
        i = op["o"] % len(objs)
        o = objs[i]
        if "m" in op:
            m = op["m"]
            apply_op(o, m[0], m[1], m[2])
            muts[i].append(m)
            if m[0] == "set_phosphosites":
                arg = dec(m[1][0])
                for p in ([arg] if isinstance(arg, int) else arg):
                    if 1 <= p <= len(seqs[i]) and seqs[i][p - 1] in "STY" and p not in sites[i]:
                        sites[i].append(p)
            elif m[0] == "clear_phosphosites":
                sites[i] = []
            else:
                state[i]["pal"] = True
            if m[0] != "set_HTMLColorResiduePalette":
                # which sites a setter keeps, and in which order, is C16's subject; here the list only serves as the
                # baseline that later read-only queries must leave alone, so it is taken from the object itself
                try:
                    seen = look_sites(o)
                    if seen != sites[i]:
                        ctx.probe("site_list_after_setter_differs_from_first_set_order_model")
                    sites[i] = seen
                except Discard:
                    raise
                except Exception:
                    pass
            last_kind[i] = "mutator"
            ctx.log.emit("mut", o=i, name=m[0])
            ctx.count("mutators")
            continue
        if "shuffle" in op:
            fz = set(j for j in op["shuffle"].get("fz", []) if j < len(seqs[i]))
            child = o.get_shuffled_sequence(fz)
            import localcider.backend.sequence as _seqmod

            def _backend(w):
                b = getattr(w, "SeqObj", None)
                if b is None:
                    try:
                        found = [v for v in vars(w).values() if isinstance(v, _seqmod.Sequence)]
                    except TypeError:
                        found = []
                    b = found[0] if len(found) == 1 else None
                return b
            for other in objs:
                sa, sb = _backend(child), _backend(other)
                if child is other or (sa is not None and sa is sb):
                    # two API objects over one backend: what a setter does to one shows on the other.  That is a
                    # matter for C16/C20 (which report it); a history of read-only queries cannot be judged on it
                    raise Discard("a shuffle returned the object it was called on: the copy and the original are one object")
            cs = child.get_sequence()
            add(child, cs, "child")
            kinds_seen.append(set())
            # what a shuffled copy inherits from its parent (palette, phosphosites) is not said by the statement:
            # the replica of the oracle starts from whichever of the two states explains what the copy shows now
            look = [cjson(apply_op(child, "get_HTMLColorString", [], {})), cjson(apply_op(child, "get_phosphosites", [], {}))]
            chosen = None
            for cand in ([], [m_ for m_ in muts[i] if m_[0] == "set_HTMLColorResiduePalette"], list(muts[i])):
                try:
                    want_look = [cjson(oracle.ask(cs, cand, ["get_HTMLColorString", [], {}])), cjson(oracle.ask(cs, cand, ["get_phosphosites", [], {}]))]
                except Exception:
                    continue
                if want_look == look:
                    chosen = cand
                    break
            if chosen is None:
                unjudged.add(len(objs) - 1)
                ctx.probe("child_with_unexplained_setter_state")
            else:
                muts[-1] = list(chosen)
                sites[-1] = [int(x) for x in json.loads(look[1])] if look[1].startswith("[") else []
            last_kind[i] = "shuffle"
            ctx.log.emit("shuffle", o=i, child=cs)
            ctx.count("shuffles")
            continue
        q = op["q"]
        name = q[0]
        if i in unjudged:
            continue
        if name == "get_full_phosphostatus_kappa_distribution" and len(sites[i]) > 5:
            continue
        reads0, ev0 = clock.reads, fs.nevents
        draws0 = ctx.counters.get("draws_move", 0)
        rawbox = []
        got = apply_op(o, name, q[1], q[2], raw=rawbox)
        if rawbox and any(id(x) in scribbled for x in flat(rawbox[0])):
            raise Discard("a container the caller had edited was handed out again (whether results are private copies is not said)")
        if op.get("scribble") and rawbox and scribble(rawbox[0]):
            for x in flat(rawbox[0]):
                scribbled[id(x)] = x
            ctx.probe("caller_scribbles_on_returned_container")
        if clock.reads != reads0 or fs.nevents != ev0 or ctx.counters.get("draws_move", 0) != draws0:
            ctx.probe("seam_touched_by_query")
        want = oracle_value(i, q)
        is_exc = isinstance(got, dict) and "exc" in got
        ctx.log.emit("q", o=i, name=name, exc=got.get("exc") if is_exc else None, same=(got == want))
        ctx.count("compared_calls")
        st = state[i]
        perm_call = name == "get_deltaMax" and (bool(q[1] and q[1][0]) or bool(q[2].get("returnSeqDeltaMax")))
        # probes on the orders that matter
        if perm_call and st["dmax"] and not st["perm"]:
            ctx.probe("permutant_after_value")
        if name in ("get_deltaMax", "get_kappa") and not perm_call and st["perm"]:
            ctx.probe("value_after_permutant")
        if name == "get_deltaMax" and kinds_seen[i] & set(KAPPA_FAMILY):
            ctx.probe("kappa_family_before_dmax")
        if name == "get_linear_sequence_composition" and len(q[1]) < 2 and "grps" not in q[2] and st["comp"]:
            ctx.probe("default_composition_repeated")
        if prev_q[0] is not None and prev_q[0][1] and not is_exc and prev_q[0][0] == i:
            ctx.probe("failing_then_succeeding")
        if prev_q[0] is not None and prev_q[0][0] != i and prev_q[0][2] == cjson(q):
            ctx.probe("same_op_on_A_then_B")
        if last_kind[i] == "mutator":
            ctx.probe("query_after_mutator")
        if st["tag"] == "child":
            ctx.probe("shuffle_child_queried")
        if is_exc:
            ctx.probe("invalid_argument_call")
        if name == "get_full_phosphostatus_kappa_distribution" and sites[i]:
            ctx.probe("phospho_distribution_compared")
        if name == "get_linear_complexity":
            ctx.probe("complexity_call")
        if "userAlphabet" in q[2] or (name == "get_reduced_alphabet_sequence" and len(q[1]) > 1):
            ctx.probe("user_alphabet_call")
        if len(kinds_seen[i]) >= 2 or (last_obj[0] is not None and last_obj[0] != i):
            ctx.nontrivial = True
        ctx.sig(int(st["dmax"]), int(st["perm"]), int(st["comp"]), int(bool(sites[i])), int(st["pal"]), last_kind[i], name + ("(perm)" if perm_call else ""))
        if got != want:
            hist = [("new" if "new" in p else ("obj%d." % (p["o"] % len(objs))) + (p["q"][0] if "q" in p else p["m"][0] if "m" in p else "shuffle")) for p in plan["ops"][:n]]
            raise Violation("history_dependent", "history_dependent:" + name + ("_perm" if perm_call else ""),
                            "object %d (%s): %s(%s) returned %s after history %s; a fresh object in a pristine interpreter returns %s" % (
                                i, seqs[i], name, cjson([q[1], q[2]])[:120], cjson(got)[:200], hist[-8:], cjson(want)[:200]))
        # abstract state update
        if name in KAPPA_FAMILY[:1] or name == "get_deltaMax":
            st["dmax"] = True
        if perm_call:
            st["perm"] = True
        if name == "get_linear_sequence_composition":
            st["comp"] = True
        kinds_seen[i].add(name)
        last_kind[i] = name
        last_obj[0] = i
        prev_q[0] = (i, is_exc, cjson(q))
        if not op.get("post", True):
            continue                     # these two look-ups are calls too: not after every query
        # the query must not have changed the stored sequence or the site list
        if o.get_sequence() != seqs[i]:
            raise Violation("query_changed_object", "query_changed_sequence:" + name, "%s changed the stored sequence of object %d" % (name, i))
        if look_sites(o) != sites[i]:
            raise Violation("query_changed_object", "query_changed_sites:" + name, "%s changed the phosphosite list of object %d: %r, before the query %r" % (
                name, i, o.get_phosphosites(), sites[i]))
    # final look at every object: stored sequence and site list follow the model
    for i, o in enumerate(objs):
        if o.get_sequence() != seqs[i]:
            raise Violation("query_changed_object", "query_changed_sequence:end", "the stored sequence of object %d changed during the history" % i)
        if look_sites(o) != sites[i]:
            raise Violation("query_changed_object", "query_changed_sites:end", "the phosphosite list of object %d is %r at the end of the history, after its last setter it was %r" % (
                i, o.get_phosphosites(), sites[i]))
    ctx.count("ops", len(plan["ops"]))


def shrink(plan, res):
    for c in list_candidates(plan, "ops"):
        yield c
    for i, od in enumerate(plan["objects"]):
        if od.get("how") == "file":
            c = copy.deepcopy(plan)
            c["objects"][i]["how"] = "string"
            yield c
        s = od["seq"]
        for cut in (s[:len(s) // 2], s[len(s) // 2:], s[:-1], s[1:]):
            if cut and cut != s:
                c = copy.deepcopy(plan)
                c["objects"][i]["seq"] = cut
                yield c
    for n, op in enumerate(plan["ops"]):
        if "o" in op and op.get("o", 0) != 0:
            c = copy.deepcopy(plan)
            c["ops"][n]["o"] = 0
            yield c

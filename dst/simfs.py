"""SimFS: an in-memory disk behind the `open` the code under test calls.

Handles are real io.TextIOWrapper over io.BufferedReader/Writer over SimRaw,
so decoding, universal newlines, buffering and errors surfacing at close()
are CPython's.  The fault plan decides raw-read chunk sizes, EIO on the k-th
raw op, ENOSPC after B bytes, errors at open, and a crash at the k-th event
with the in-flight raw write torn.
"""
import errno
import io
from .kernel import SimCrash


class SimRaw(io.RawIOBase):
    def __init__(self, fs, path, mode):
        io.RawIOBase.__init__(self)
        self.fs = fs
        self.path = path
        self.mode = mode
        self.pos = 0
        self.epoch = fs.epoch
        self.fs.open_handles += 1
        self._closed_once = False

    def _dead(self):
        # handles that outlive a crash (garbage-collected writers flushing late)
        return self.fs.crashed or self.epoch != self.fs.epoch

    def readable(self):
        return self.mode == "r"

    def writable(self):
        return self.mode in ("w", "a")

    def seekable(self):
        return False

    def readinto(self, b):
        fs = self.fs
        fs.event("read", self.path)
        data = fs.files[self.path]
        n = min(len(b), len(data) - self.pos)
        if n > 0 and fs.chunks is not None:
            n = min(n, fs.next_chunk())
        b[:n] = data[self.pos:self.pos + n]
        self.pos += n
        fs.ctx.count("fs_bytes_read", n)
        if n == 0:
            fs.saw_eof = True
        return n

    def write(self, b):
        fs = self.fs
        b = bytes(b)
        if self._dead():
            return len(b)
        torn = fs.event("write", self.path, nbytes=len(b))
        n = len(b)
        if torn is not None:       # crash in flight: a prefix reaches the disk
            n = min(n, torn)
            fs.files[self.path] += b[:n]
            raise SimCrash("crash during write to %s" % self.path)
        if fs.capacity is not None:
            room = fs.capacity - fs.used()
            if room <= 0:
                fs.ctx.fault("fs_enospc")
                fs.errors_fired += 1
                raise OSError(errno.ENOSPC, "No space left on device (simulated)", self.path)
            n = min(n, room)
        fs.files[self.path] += b[:n]
        fs.ctx.count("fs_bytes_written", n)
        return n

    def close(self):
        if not self._closed_once:
            self._closed_once = True
            if not self._dead():
                self.fs.open_handles -= 1
                self.fs.event("close", self.path)
        io.RawIOBase.close(self)


class SimFS(object):
    def __init__(self, ctx, rnd=None):
        self.ctx = ctx
        self.rnd = rnd
        self.files = {}
        self.dirs = set()
        self.open_handles = 0
        self.epoch = 0
        self.nevents = 0
        self.chunks = None          # None = unlimited raw reads; else list/callable of sizes
        self._chunk_i = 0
        self.capacity = None        # total bytes the disk can hold
        self.faults = []            # [{"at": k, "kind": "eio"|"crash", "torn": n}]
        self.open_faults = {}       # path -> errno name
        self.errors_fired = 0
        self.crashed = False
        self.saw_eof = False
        self.enabled = True
        self.root = None            # real directory mirroring durable content (so os.stat & co. work); never logged

    # -- fault plan ---------------------------------------------------------
    def used(self):
        return sum(len(v) for v in self.files.values())

    def next_chunk(self):
        c = self.chunks
        if callable(c):
            return max(1, c())
        v = c[self._chunk_i % len(c)]
        self._chunk_i += 1
        return max(1, v)

    def event(self, op, path, **kw):
        """Counts an FS event; fires the fault scheduled at this event number.
        Returns a torn-byte count if a crash fires during a write."""
        self.nevents += 1
        self.ctx.log.emit("fs", op=op, path=self.show(path), **kw)
        for f in self.faults:
            if f.get("at") == self.nevents and not f.get("done"):
                f["done"] = True
                if f["kind"] == "eio":
                    self.ctx.fault("fs_eio_" + op)
                    self.errors_fired += 1
                    raise OSError(errno.EIO, "Input/output error (simulated)", path)
                if f["kind"] == "crash":
                    self.ctx.fault("fs_crash_" + op)
                    self.crashed = True
                    if op == "write":
                        return int(f.get("torn", 0))
                    raise SimCrash("crash at fs event %d (%s %s)" % (self.nevents, op, path))
        return None

    def show(self, path):
        """stable name for the event log (the real mirror directory has a random name)"""
        if self.root and path.startswith(self.root):
            return "/sim" + path[len(self.root):]
        return path

    def mirror(self, path):
        """copies the durable bytes of path to the real mirror directory (metadata calls such as
        os.stat / os.path.exists on the path then behave as on a real disk)"""
        if self.root and path.startswith(self.root):
            import os as _os
            with _os.fdopen(_os.open(path, _os.O_WRONLY | _os.O_CREAT | _os.O_TRUNC, 0o644), "wb") as fh:
                fh.write(bytes(self.files.get(path, b"")))

    def restart(self):
        """After a crash: the disk survives, every handle is gone."""
        self.epoch += 1
        self.crashed = False
        self.open_handles = 0

    # -- the seam -------------------------------------------------------------
    def open(self, path, mode="r", buffering=-1, encoding=None, errors=None, newline=None, *a, **k):
        path = str(path)
        m = mode.replace("t", "")
        if "b" in m or m not in ("r", "w", "a"):
            raise ValueError("SimFS: unsupported mode %r" % mode)
        if path in self.open_faults:
            name = self.open_faults[path]
            self.nevents += 1
            self.ctx.log.emit("fs", op="open", path=self.show(path), mode=m, err=name)
            self.ctx.fault("fs_open_" + name)
            self.errors_fired += 1
            raise OSError(getattr(errno, name), "%s (simulated)" % name, path)
        if path in self.dirs:
            self.event("open", path, mode=m)
            raise IsADirectoryError(errno.EISDIR, "Is a directory (simulated)", path)
        if m == "r":
            if path not in self.files:
                self.event("open", path, mode=m)
                raise FileNotFoundError(errno.ENOENT, "No such file or directory (simulated)", path)
            self.event("open", path, mode=m)
            raw = SimRaw(self, path, "r")
            return io.TextIOWrapper(io.BufferedReader(raw), encoding=encoding or "utf-8",
                                    errors=errors, newline=newline)
        self.event("open", path, mode=m)
        if m == "w" or path not in self.files:
            if m == "w":
                self.files[path] = bytearray()
            else:
                self.files.setdefault(path, bytearray())
        raw = SimRaw(self, path, m)
        return io.TextIOWrapper(io.BufferedWriter(raw), encoding=encoding or "utf-8",
                                errors=errors, newline=newline)

    def text(self, path):
        return bytes(self.files.get(path, b"")).decode("utf-8", "replace")

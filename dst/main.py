"""Entry point: ./check <id> [--tier quick|thorough] [--repo /repo] [--replay file]"""
import argparse
import importlib
import json
import os
import sys
import time

HERE = os.path.dirname(os.path.abspath(__file__))
VERIF = os.path.dirname(HERE)
if VERIF not in sys.path:
    sys.path.insert(0, VERIF)

from dst import runner  # noqa: E402
from dst.kernel import Streams  # noqa: E402
from dst.minimise import minimise  # noqa: E402

PROPS = ["C14", "C15", "C16", "C17", "C18", "C20"]


def load_prop(pid):
    return importlib.import_module("dst.props." + pid.lower())


def merge(dst, src):
    for k, v in (src or {}).items():
        dst[k] = dst.get(k, 0) + v


def validate_evidence(path):
    """Best effort self-validation against the schema (jsonschema lives in the tooling venv)."""
    schema = "/root/.vp/EVIDENCE.schema.json"
    try:
        import jsonschema
        with open(schema) as fh:
            sch = json.load(fh)
        with open(path) as fh:
            jsonschema.validate(json.load(fh), sch)
        return "validated (jsonschema)"
    except ImportError:
        pass
    except Exception as e:
        return "INVALID: %s" % e
    with open(path) as fh:
        ev = json.load(fh)
    for k in ("property_id", "tier", "seed", "level", "coverage", "wall_s"):
        if k not in ev:
            return "INVALID: missing %s" % k
    cov = ev["coverage"]
    if not (cov.get("evaluations", 0) >= 1 and cov.get("distinct_nontrivial", 0) >= 2
            and isinstance(cov.get("rule"), str) and cov.get("samples")):
        return "INVALID: coverage keys"
    return "validated (builtin)"


def load_corpus_dir(pid):
    """directed plans kept as files: corpus/<id>/*.json ({"plan": ...} or a bare plan), e.g. minimised
    replays of past false alarms and of fixed defects"""
    d = os.path.join(VERIF, "corpus", pid)
    out = []
    if os.path.isdir(d):
        for f in sorted(os.listdir(d)):
            if f.endswith(".json"):
                with open(os.path.join(d, f)) as fh:
                    doc = json.load(fh)
                out.append(("file:" + f[:-5], doc.get("plan", doc)))
    return out


def replay_path(pid, verif_seed, res):
    name = res.get("name") or ("run%s" % res.get("i"))
    return os.path.join(VERIF, "replays", "%s-%s-%s.json" % (pid, verif_seed, name))


def make_scratch():
    """one scratch directory per check process; runs create their simulated disks inside it, so that runs
    killed at a wall cap or at the first violation leave nothing behind.  Stale directories of dead
    processes are removed on the way."""
    import shutil
    import tempfile
    top = os.path.join(tempfile.gettempdir(), "dst_scratch")
    os.makedirs(top, exist_ok=True)
    for name in os.listdir(top):
        try:
            os.kill(int(name), 0)
        except (ValueError, ProcessLookupError):
            shutil.rmtree(os.path.join(top, name), ignore_errors=True)
        except PermissionError:
            pass
    base = os.path.join(top, str(os.getpid()))
    os.makedirs(base, exist_ok=True)
    os.environ["TMPDIR"] = base
    tempfile.tempdir = base
    return base


def check(pid, tier, verif_seed, repo, nlanes, **kw):
    import shutil
    base = make_scratch()
    try:
        return _check(pid, tier, verif_seed, repo, nlanes, **kw)
    finally:
        shutil.rmtree(base, ignore_errors=True)


def _check(pid, tier, verif_seed, repo, nlanes, replay=None, runs=None, wall_cap=None, quiet=False,
           write_evidence=True, do_min=True):
    prop = load_prop(pid)
    t0 = time.time()
    repo = runner.load_repo(repo)
    ident = runner.repo_identity(repo)
    cfg = dict(prop.TIERS[tier])
    if runs is not None:
        cfg["runs"] = runs
    if wall_cap is not None:
        cfg["wall_cap"] = wall_cap

    def say(*a):
        if not quiet:
            print(*a)
            sys.stdout.flush()

    say("VERIF_SEED=%d property=%s tier=%s repo=%s head=%s tree=%s" % (
        verif_seed, pid, tier, repo, ident["head"][:10], ident["worktree_sha"]))

    if replay:
        with open(replay) as fh:
            doc = json.load(fh)
        if doc.get("python_optimize") and not sys.flags.optimize:
            # the violation was found by the optimised-interpreter pass: replay it the same way
            import subprocess
            q = subprocess.run([sys.executable, "-O", "-W", "ignore", os.path.abspath(__file__), pid, "--repo", repo, "--replay", replay],
                               env=dict(os.environ, VERIF_NO_OPT_PASS="1"))
            return q.returncode
        res = runner.exec_plan(prop, tier, doc["plan"], timeout=cfg.get("timeout", 120), want_tail=True)
        say("replay outcome=%s kind=%s key=%s event=%s digest=%s" % (
            res.get("outcome"), res.get("kind"), res.get("key"), res.get("event"), res.get("digest")))
        say("  " + str(res.get("msg")))
        want = doc.get("violation", {})
        if res.get("outcome") == "VIOLATION":
            same = (res.get("kind") == want.get("kind") and res.get("digest") == doc.get("digest"))
            say("replay %s the recorded violation%s" % (
                "reproduces" if same else "shows a violation different from",
                "" if same else " (recorded kind=%s digest=%s)" % (want.get("kind"), doc.get("digest"))))
            print("VIOLATION property=%s replay=%s" % (pid, replay))
            return 1
        if res.get("outcome") == "HARNESS-ERROR":
            print("HARNESS-ERROR property=%s %s" % (pid, res.get("msg")))
            say(res.get("trace", ""))
            return 3
        say("replay: no violation on this tree")
        return 0

    jobs = []
    corpus_plans = list(prop.corpus()) + load_corpus_dir(pid)
    for name, plan in corpus_plans:
        jobs.append({"tag": "corpus", "name": name, "plan": plan})
    ncorpus = len(jobs)
    nruns = cfg["runs"]
    ndup = min(cfg.get("dups", 8), nruns)
    # the duplicates (determinism pairs) go first so that a wall-cap truncation never drops them;
    # each runs in a different lane than the seeded run with the same index
    for i in range(ndup):
        jobs.append({"tag": "dup", "i": i, "lane": ncorpus + ndup + i + 5})
    for i in range(nruns):
        jobs.append({"tag": "seed", "i": i, "lane": ncorpus + ndup + i})

    agg = {"counters": {}, "probes": {}, "faults": {}, "known": {}, "outcomes": {}}
    sigs = set()
    digests = set()
    nontrivial_digests = set()
    seed_digest = {}
    dup_digest = {}
    violations = []
    harness = []
    sim_seconds = 0.0
    nres = 0
    nevents = 0
    by_tag = {}

    def stop(res):
        # a duplicate (determinism pair) never decides anything: the seeded run with the same index does
        return res.get("outcome") == "VIOLATION" and res.get("tag") != "dup"

    for res in runner.run_jobs(prop, tier, verif_seed, jobs, nlanes, cfg.get("timeout", 120),
                               cfg.get("wall_cap"), stop_pred=stop):
        nres += 1
        tag = res.get("tag")
        by_tag[tag] = by_tag.get(tag, 0) + 1
        if tag == "dup":
            dup_digest[res["i"]] = res.get("digest")
            if res.get("outcome") == "HARNESS-ERROR":
                harness.append(res)
            continue
        oc = res.get("outcome")
        agg["outcomes"][oc] = agg["outcomes"].get(oc, 0) + 1
        if oc == "HARNESS-ERROR":
            harness.append(res)
            continue
        if oc in ("DISCARD", "BUDGET"):
            k = oc + ": " + str(res.get("msg"))[:44]
            agg.setdefault("reasons", {})
            agg["reasons"][k] = agg["reasons"].get(k, 0) + 1
        if tag == "seed":
            seed_digest[res["i"]] = res.get("digest")
        merge(agg["counters"], res.get("counters"))
        merge(agg["probes"], res.get("probes"))
        merge(agg["faults"], res.get("faults"))
        merge(agg["known"], res.get("known"))
        sigs.update(res.get("sigs") or [])
        digests.add(res.get("digest"))
        if res.get("nontrivial"):
            nontrivial_digests.add(res.get("digest"))
        sim_seconds += res.get("sim_seconds") or 0.0
        nevents += res.get("nevents") or 0
        if oc == "VIOLATION":
            violations.append(res)
    state = runner.run_jobs.state
    wall_runs = time.time() - t0

    # determinism: same run index executed twice, in different lanes / processes
    det_pairs = [(i, seed_digest[i], dup_digest[i]) for i in dup_digest if i in seed_digest]
    det_bad = [p for p in det_pairs if p[1] != p[2]]

    rc = 0
    lines = []
    if harness:
        rc = 3
        for h in harness[:5]:
            lines.append("HARNESS-ERROR property=%s tag=%s i=%s name=%s %s" % (
                pid, h.get("tag"), h.get("i"), h.get("name"), h.get("msg")))
            if h.get("trace"):
                lines.append(h["trace"])
    if det_bad:
        # two executions of the same seed differ.  On the unchanged tree this never happens (selftest-determinism
        # fails hard if it does); on a changed tree it means the library reaches for entropy or time through a
        # door the seams do not cover.  That is not a verdict about the property and not a reason to call the
        # check broken: it is reported, and replays of such runs may not reproduce.
        lines.append("NOTE property=%s %d of %d determinism pairs differ (runs %s): the library under test draws on a source of nondeterminism outside the simulator's seams" % (
            pid, len(det_bad), len(det_pairs), [p[0] for p in det_bad][:10]))
    expected = len(jobs)
    if nres < expected and not state["truncated"] and not state["stopped"]:
        rc = 3
        lines.append("HARNESS-ERROR property=%s only %d of %d results arrived" % (pid, nres, expected))

    if state["stopped"] and not violations:
        rc = 3
        lines.append("HARNESS-ERROR property=%s the run was stopped for a violation but none was recorded" % pid)

    replay_file = None
    if violations:
        violations.sort(key=lambda r: (0 if r.get("tag") == "corpus" else 1, r.get("i") or 0, r.get("name") or ""))
        v = violations[0]
        # regenerate the plan
        if v.get("tag") == "corpus":
            plan = dict(corpus_plans)[v["name"]]
        else:
            plan = prop.gen_plan(Streams(prop.ID, verif_seed, v["i"]), tier)
        mplan, mres, nexec = plan, v, 0
        if do_min:
            try:
                mplan, mres, nexec = minimise(prop, tier, plan, v, budget_s=cfg.get("min_budget", 120))
            except Exception as e:  # minimisation is best effort
                say("minimisation failed: %r" % (e,))
        os.makedirs(os.path.join(VERIF, "replays"), exist_ok=True)
        replay_file = replay_path(pid, verif_seed, v)
        doc = {"property": pid, "verif_seed": verif_seed, "tier": tier, "run_index": v.get("i"),
               "corpus_name": v.get("name"), "plan": mplan,
               "violation": {"kind": mres.get("kind"), "key": mres.get("key"), "message": mres.get("msg"),
                             "event": mres.get("event")},
               "digest": mres.get("digest"), "event_tail": mres.get("tail"),
               "original": {"kind": v.get("kind"), "message": v.get("msg"), "event": v.get("event"),
                            "digest": v.get("digest")},
               "minimisation_executions": nexec, "repo": ident, "python_optimize": int(sys.flags.optimize),
               "replay_cmd": "./check %s --replay %s" % (pid, replay_file)}
        with open(replay_file, "w") as fh:
            json.dump(doc, fh, indent=1, sort_keys=True)
        lines.append("violation kind=%s key=%s event=%s: %s" % (
            mres.get("kind"), mres.get("key"), mres.get("event"), mres.get("msg")))
        lines.append("VIOLATION property=%s replay=%s" % (pid, replay_file))
        rc = 1 if rc != 3 else 3

    # second pass under `python -O` (asserts stripped, __debug__ False): validation written with assert,
    # or anything else that behaves differently in an optimised interpreter, shows only there
    opt_pass = None
    if rc == 0 and not replay and not os.environ.get("VERIF_NO_OPT_PASS") and not sys.flags.optimize:
        import subprocess
        n_opt = max(40, nruns // 12)
        env = dict(os.environ, VERIF_SEED=str(verif_seed), VERIF_NO_OPT_PASS="1")
        cmd = [sys.executable, "-O", "-W", "ignore", os.path.abspath(__file__), pid, "--tier", tier, "--repo", repo, "--runs", str(n_opt),
               "--no-evidence", "--lanes", str(nlanes), "--wall-cap", str(max(30, int((cfg.get("wall_cap") or 120) / 6)))]
        try:
            q = subprocess.run(cmd, env=env, capture_output=True, text=True, timeout=(cfg.get("wall_cap") or 120) + 120)
            vio = [l for l in q.stdout.splitlines() if l.startswith("VIOLATION ")]
            detail = [l for l in q.stdout.splitlines() if l.startswith("violation ")]
            opt_pass = {"runs": n_opt, "exit": q.returncode}
            if q.returncode == 1 and vio:
                lines.append("under `python -O`: " + (detail[0] if detail else ""))
                lines.append(vio[0])
                rc = 1
                violations.append({"tag": "opt", "outcome": "VIOLATION"})
            elif q.returncode not in (0, 1):
                harness_l = [l for l in q.stdout.splitlines() if l.startswith("HARNESS-ERROR")]
                lines.append("HARNESS-ERROR property=%s optimised-interpreter pass failed (exit %d): %s" % (pid, q.returncode, (harness_l[0] if harness_l else q.stderr[-300:])))
                rc = 3
        except subprocess.TimeoutExpired:
            lines.append("HARNESS-ERROR property=%s optimised-interpreter pass timed out" % pid)
            rc = 3

    known_entries = [e for e in runner.load_known(pid) if e.get("status") == "open"]
    for e in known_entries:
        n = agg["known"].get(e["key"], 0)
        if n:
            lines.append("KNOWN-FINDING: property=%s %s [key=%s, reproduced %d times in this run]" % (
                pid, e["text"], e["key"], n))

    wall = time.time() - t0
    nseed = by_tag.get("seed", 0)
    evals = by_tag.get("seed", 0) + by_tag.get("corpus", 0)
    if write_evidence:
        samples = []
        for i in range(min(3, nruns)):
            samples.append({"run_index": i, "plan": prop.gen_plan(Streams(prop.ID, verif_seed, i), tier)})
        samples = json.loads(json.dumps(samples)[:200000]) if len(json.dumps(samples)) < 200000 else samples[:1]
        zero_probes = [p for p in getattr(prop, "PROBES", []) if not agg["probes"].get(p)]
        cov = {
            "evaluations": evals,
            "distinct_nontrivial": len(nontrivial_digests),
            "rule": prop.RULE,
            "samples": samples,
            "exhaustive": False,
            "runs_seeded": nseed, "runs_corpus": by_tag.get("corpus", 0),
            "runs_per_hour": int(evals / max(wall_runs, 1e-6) * 3600),
            "seeds_per_hour": int(nseed / max(wall_runs, 1e-6) * 3600),
            "events": nevents,
            "simulated_seconds_covered": sim_seconds,
            "outcomes": agg["outcomes"],
            "discard_and_budget_reasons": agg.get("reasons", {}),
            "faults_fired": agg["faults"],
            "probes": agg["probes"],
            "probes_at_zero": zero_probes,
            "counters": agg["counters"],
            "distinct_run_digests": len(digests),
            "distinct_state_signatures": len(sigs),
            "state_signature_rule": getattr(prop, "SIG_RULE", ""),
            "determinism": {"pairs_checked": len(det_pairs), "mismatches": len(det_bad),
                            "how": "same run index executed twice in different worker processes; event-log digests compared"},
            "truncated_by_wall_cap": bool(state["truncated"]),
            "optimised_interpreter_pass": opt_pass,
            "known_findings_reproduced": agg["known"],
            "real_components": prop.REAL,
            "stubbed_components": prop.STUBBED,
            "lanes": nlanes,
            "repo": ident,
        }
        ev = {"property_id": pid, "tier": tier, "seed": verif_seed, "level": prop.LEVEL,
              "coverage": cov, "assumptions": prop.ASSUMPTIONS, "wall_s": round(wall, 2),
              "violations": len(violations)}
        os.makedirs(os.path.join(VERIF, "evidence"), exist_ok=True)
        evp = os.path.join(VERIF, "evidence", "%s.json" % pid)
        with open(evp, "w") as fh:
            json.dump(ev, fh, indent=1, sort_keys=True)
        # a copy per tier, so that the deeper exploration of the thorough tier stays on record when a
        # later quick run rewrites evidence/<id>.json
        os.makedirs(os.path.join(VERIF, "evidence", "by_tier"), exist_ok=True)
        with open(os.path.join(VERIF, "evidence", "by_tier", "%s.%s.json" % (pid, tier)), "w") as fh:
            json.dump(ev, fh, indent=1, sort_keys=True)
        v = validate_evidence(evp)
        if v.startswith("INVALID"):
            lines.append("HARNESS-ERROR property=%s evidence %s" % (pid, v))
            rc = 3
        say("evidence: %s (%s)" % (evp, v))
    say("runs=%d (seeded %d, corpus %d, dup %d) outcomes=%s wall=%.1fs  distinct digests=%d sigs=%d events=%d" % (
        nres, nseed, by_tag.get("corpus", 0), by_tag.get("dup", 0), agg["outcomes"], wall,
        len(digests), len(sigs), nevents))
    if agg.get("reasons"):
        say("discard/budget reasons: %s" % json.dumps(agg["reasons"], sort_keys=True))
    notj = agg["outcomes"].get("DISCARD", 0) + agg["outcomes"].get("BUDGET", 0)
    tot = sum(agg["outcomes"].values())
    if tot and notj * 2 > tot:
        # a verdict of "held" that rests on few judged runs must say so: most runs ended in a state the statement does
        # not cover or the simulator cannot attribute (typical for an implementation whose randomness bypasses the seams)
        lines.append("NOTE property=%s only %d of %d runs were judged, %d ended undecided (%s): the result says little about this tree" % (
            pid, tot - notj, tot, notj, "; ".join("%s x%d" % (k, v) for k, v in sorted(agg.get("reasons", {}).items(), key=lambda kv: -kv[1])[:3])))
    say("faults fired: %s" % json.dumps(agg["faults"], sort_keys=True))
    say("probes: %s" % json.dumps(agg["probes"], sort_keys=True))
    if state["truncated"]:
        say("note: wall cap reached, %d of %d jobs finished" % (nres, expected))
    for l in lines:
        print(l)
    sys.stdout.flush()
    _check.last = {"agg": agg, "violations": violations, "rc": rc, "replay": replay_file, "nres": nres}
    return rc


def main(argv=None):
    ap = argparse.ArgumentParser()
    ap.add_argument("what")
    ap.add_argument("--tier", default=os.environ.get("VERIF_TIER") or "quick")
    ap.add_argument("--repo", default=os.environ.get("VERIF_REPO") or "/repo")
    ap.add_argument("--replay")
    ap.add_argument("--runs", type=int)
    ap.add_argument("--wall-cap", type=float)
    ap.add_argument("--lanes", type=int, default=int(os.environ.get("VERIF_LANES") or (os.cpu_count() or 4)))
    ap.add_argument("--no-min", action="store_true")
    ap.add_argument("--no-evidence", action="store_true")
    a, rest = ap.parse_known_args(argv)
    try:
        seed = int(os.environ.get("VERIF_SEED") or 0)
    except ValueError:
        seed = 0
    if a.tier not in ("quick", "thorough"):
        a.tier = "quick"
    what = a.what.upper() if a.what.upper() in PROPS else a.what
    if what in PROPS:
        return check(what, a.tier, seed, a.repo, a.lanes, replay=a.replay, runs=a.runs, wall_cap=a.wall_cap,
                     write_evidence=not a.no_evidence and not a.replay, do_min=not a.no_min)
    if what.startswith("selftest"):
        from dst import selftest
        return selftest.main(what, a, rest, seed)
    print("unknown target %r; properties: %s" % (a.what, PROPS))
    return 2


if __name__ == "__main__":
    try:
        rc = main()
    except SystemExit:
        raise
    except BaseException as e:
        import traceback
        traceback.print_exc()
        print("HARNESS-ERROR %s: %s" % (type(e).__name__, e))
        rc = 3
    sys.exit(rc)

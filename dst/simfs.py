"""SimFS: a fault-injecting interposition layer behind the `open` the code under test calls.

Files live in a real scratch directory (`fs.root`, random name, never logged), so
metadata calls the code may make on its paths (os.stat, os.path.exists, os.replace,
os.fsync(fh.fileno()), os.makedirs) behave as on a real disk.  Every handle obtained
through the seam is the real io.TextIOWrapper / io.Buffered* stack of CPython over a
SimRaw, which wraps a real io.FileIO and decides, from the run's fault plan, raw-read
chunk sizes, EIO on the k-th raw operation, ENOSPC after B bytes, errors at open, and a
crash at the k-th event with the in-flight raw write torn.  All `open` modes of io.open
are supported (text/binary, r/w/a/x, +, buffering 0).
"""
import errno
import io
import os
import shutil
import tempfile

from .kernel import SimCrash


class SimRaw(io.RawIOBase):
    def __init__(self, fs, path, fmode):
        io.RawIOBase.__init__(self)
        self.fs = fs
        self.path = path
        self.f = io.FileIO(path, fmode)
        self.epoch = fs.epoch
        self.fs.open_handles += 1
        self._closed_once = False

    # handles that outlive a crash (garbage-collected writers flushing late) must not reach the disk
    def _dead(self):
        return self.fs.crashed or self.epoch != self.fs.epoch

    @property
    def name(self):
        return self.path

    @property
    def mode(self):
        return self.f.mode

    def readable(self):
        return self.f.readable()

    def writable(self):
        return self.f.writable()

    def seekable(self):
        return self.f.seekable()

    def fileno(self):
        return self.f.fileno()

    def isatty(self):
        return False

    def seek(self, pos, whence=0):
        return self.f.seek(pos, whence)

    def tell(self):
        return self.f.tell()

    def truncate(self, size=None):
        return self.f.truncate(size)

    def readinto(self, b):
        fs = self.fs
        fs.event("read", self.path)
        mv = memoryview(b)
        n = len(mv)
        if n > 0 and fs.chunks is not None:
            n = min(n, fs.next_chunk())
        got = self.f.readinto(mv[:n])
        got = got or 0
        fs.ctx.count("fs_bytes_read", got)
        if got == 0:
            fs.saw_eof = True
        return got

    def write(self, b):
        fs = self.fs
        b = bytes(b)
        if self._dead():
            return len(b)
        torn = fs.event("write", self.path, nbytes=len(b))
        n = len(b)
        if torn is not None:       # crash in flight: a prefix reaches the disk
            n = min(n, torn)
            if n:
                self.f.write(b[:n])
            raise SimCrash("crash during write to %s" % fs.show(self.path))
        if fs.capacity is not None:
            room = fs.capacity - fs.written
            if room <= 0:
                fs.ctx.fault("fs_enospc")
                fs.errors_fired += 1
                raise OSError(errno.ENOSPC, "No space left on device (simulated)", self.path)
            n = min(n, room)
        self.f.write(b[:n])
        fs.written += n
        fs.ctx.count("fs_bytes_written", n)
        return n

    def flush(self):
        if not self.f.closed:
            self.f.flush()

    def close(self):
        if not self._closed_once:
            self._closed_once = True
            try:
                if not self._dead():
                    self.fs.open_handles -= 1
                    self.fs.closes += 1
            finally:
                try:
                    self.f.close()
                finally:
                    io.RawIOBase.close(self)


class SimFS(object):
    def __init__(self, ctx, rnd=None, prefix="dst_fs_"):
        self.ctx = ctx
        self.rnd = rnd
        self.root = tempfile.mkdtemp(prefix=prefix)
        self.open_handles = 0
        self.epoch = 0
        self.nevents = 0
        self.chunks = None          # None = unlimited raw reads; else list/callable of sizes
        self._chunk_i = 0
        self.capacity = None        # bytes that may still be written through the seam (with self.written)
        self.written = 0
        self.faults = []            # [{"at": k, "kind": "eio"|"crash", "torn": n}]
        self.open_faults = {}       # path -> errno name
        self.errors_fired = 0
        self.crashed = False
        self.saw_eof = False
        self.closes = 0
        self.outside = 0
        self.known_names = None      # basenames the check itself uses (None = log every name as it is)
        self._anon = {}

    # -- scratch directory ----------------------------------------------------
    def cleanup(self):
        shutil.rmtree(self.root, ignore_errors=True)

    def path(self, logical):
        """maps a logical name such as '/sim/seq.fasta' into the scratch directory"""
        if logical.startswith("/sim"):
            return self.root + logical[len("/sim"):]
        return logical

    def show(self, path):
        """stable name for the event log: the scratch directory has a random name, and the library may
        create files of its own with random or pid-dependent names (tempfile, '<name>.<pid>.part'): names
        that were not declared by the check are logged by order of first appearance"""
        path = str(path)
        if path.startswith(self.root):
            rel = path[len(self.root):]
            base = rel.rsplit("/", 1)[-1]
            if self.known_names is None or base in self.known_names:
                return "/sim" + rel
            k = self._anon.setdefault(rel, len(self._anon) + 1)
            return "/sim" + rel[:len(rel) - len(base)] + "other#%d" % k
        return path

    def write_file(self, path, data):
        d = os.path.dirname(path)
        if d and not os.path.isdir(d):
            os.makedirs(d)
        with io.FileIO(path, "w") as fh:
            fh.write(bytes(data))

    def read_file(self, path):
        try:
            with io.FileIO(path, "r") as fh:
                return fh.readall()
        except (FileNotFoundError, IsADirectoryError):
            return b""

    def exists(self, path):
        return os.path.isfile(path)

    # -- fault plan -------------------------------------------------------------
    def set_capacity(self, nbytes):
        self.capacity = None if nbytes is None else int(nbytes)
        self.written = 0

    def next_chunk(self):
        c = self.chunks
        if callable(c):
            return max(1, c())
        v = c[self._chunk_i % len(c)]
        self._chunk_i += 1
        return max(1, v)

    def event(self, op, path, **kw):
        """Counts an FS event; fires the fault scheduled at this event number.
        Returns a torn-byte count if a crash fires during a write."""
        self.nevents += 1
        self.ctx.log.emit("fs", op=op, path=self.show(path), **kw)
        for f in self.faults:
            if f.get("at") == self.nevents and not f.get("done"):
                f["done"] = True
                if f["kind"] == "eio":
                    self.ctx.fault("fs_eio_" + op)
                    self.errors_fired += 1
                    raise OSError(errno.EIO, "Input/output error (simulated)", path)
                if f["kind"] == "crash":
                    self.ctx.fault("fs_crash_" + op)
                    self.crashed = True
                    if op == "write":
                        return int(f.get("torn", 0))
                    raise SimCrash("crash at fs event %d (%s %s)" % (self.nevents, op, self.show(path)))
        return None

    def restart(self):
        """After a crash: the disk survives, every handle is gone."""
        self.epoch += 1
        self.crashed = False
        self.open_handles = 0

    # -- the seam: same contract as io.open ---------------------------------------
    def open(self, file, mode="r", buffering=-1, encoding=None, errors=None, newline=None, closefd=True, opener=None):
        if isinstance(file, int) or opener is not None:
            self.outside += 1
            return io.open(file, mode, buffering, encoding, errors, newline, closefd, opener)
        path = os.fspath(file)
        if isinstance(path, bytes):
            path = os.fsdecode(path)
        if not os.path.abspath(path).startswith(self.root):
            # not one of the simulated files: hand over to the real open, unobserved
            self.outside += 1
            self.ctx.probe("open_outside_simulated_disk")
            return io.open(file, mode, buffering, encoding, errors, newline, closefd, opener)
        if not isinstance(mode, str):
            raise TypeError("invalid mode: %r" % mode)
        modes = set(mode)
        if modes - set("axrwb+tU") or len(mode) > len(modes):
            raise ValueError("invalid mode: %r" % mode)
        creating, reading, writing, appending = "x" in modes, "r" in modes, "w" in modes, "a" in modes
        updating, text, binary = "+" in modes, "t" in modes, "b" in modes
        if text and binary:
            raise ValueError("can't have text and binary mode at once")
        if creating + reading + writing + appending > 1:
            raise ValueError("can't have read/write/append mode at once")
        if not (creating or reading or writing or appending):
            raise ValueError("must have exactly one of read/write/append mode")
        if binary and encoding is not None:
            raise ValueError("binary mode doesn't take an encoding argument")
        if binary and errors is not None:
            raise ValueError("binary mode doesn't take an errors argument")
        if binary and newline is not None:
            raise ValueError("binary mode doesn't take a newline argument")
        fmode = ("x" if creating else "") + ("r" if reading else "") + ("w" if writing else "") + ("a" if appending else "") + ("+" if updating else "")
        if path in self.open_faults:
            name = self.open_faults[path]
            self.nevents += 1
            self.ctx.log.emit("fs", op="open", path=self.show(path), mode=fmode, err=name)
            self.ctx.fault("fs_open_" + name)
            self.errors_fired += 1
            raise OSError(getattr(errno, name), "%s (simulated)" % name, path)
        self.event("open", path, mode=fmode)
        raw = SimRaw(self, path, fmode)          # FileNotFoundError / IsADirectoryError come from the real disk
        result = raw
        try:
            line_buffering = False
            if buffering == 1 or (buffering < 0 and raw.isatty()):
                buffering = -1
                line_buffering = True
            if buffering < 0:
                buffering = io.DEFAULT_BUFFER_SIZE
            if buffering == 0:
                if binary:
                    return result
                raise ValueError("can't have unbuffered text I/O")
            if updating:
                buf = io.BufferedRandom(raw, buffering)
            elif creating or writing or appending:
                buf = io.BufferedWriter(raw, buffering)
            else:
                buf = io.BufferedReader(raw, buffering)
            result = buf
            if binary:
                return result
            txt = io.TextIOWrapper(buf, encoding, errors, newline, line_buffering)
            result = txt
            txt.mode = mode
            return result
        except BaseException:
            try:
                result.close()
            except BaseException:
                pass
            raise

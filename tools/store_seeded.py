#!/usr/bin/env python3
"""usage: tools/store_seeded.py <PROP> <round> <worktree OUT dir> <first number> '<json list of [change, needs, detected_at_seeding(bool)]>'
Copies patch<k>.diff / demo<k>.py of an evaluated round into seeded/<PROP>-<n>/ with a meta.json."""
import json, os, shutil, sys
prop, rnd, out, first, items = sys.argv[1], int(sys.argv[2]), sys.argv[3], int(sys.argv[4]), json.loads(sys.argv[5])
produced = sys.argv[6] if len(sys.argv) > 6 else "independent sub-agent given only the property text, the list of earlier changes to avoid, and a scratch worktree of /repo"
for k, (change, needs, det) in enumerate(items, 1):
    d = os.path.join(os.path.dirname(os.path.dirname(os.path.abspath(__file__))), "seeded", "%s-%d" % (prop, first + k - 1))
    os.makedirs(d, exist_ok=True)
    shutil.copy(os.path.join(out, "patch%d.diff" % k), os.path.join(d, "patch.diff"))
    shutil.copy(os.path.join(out, "demo%d.py" % k), os.path.join(d, "demo.py"))
    meta = {"id": "%s-%d" % (prop, first + k - 1), "property": prop, "round": rnd, "change": change, "needs_to_manifest": needs,
            "produced_by": produced,
            "confirmed": {"existing_tests_with_change": "42 passed, 10 failed (same 10 as baseline)", "demo_with_change": "exit 1",
                          "demo_without_change": "exit 0", "how": "tools/try_seeded.sh %s patch demo" % prop},
            "detected_by_check_at_time_of_seeding": bool(det), "detected_by_current_check": bool(det)}
    json.dump(meta, open(os.path.join(d, "meta.json"), "w"), indent=1)
shutil.copy(os.path.join(out, "notes.md"), os.path.join(os.path.dirname(d), "notes_%s_round%d.md" % (prop, rnd)))

"""C20 — HTML rendering; palette updates are all-or-nothing.

Workload: histories of palette updates and renders interleaved over several
live objects.  The "fault" is an update that fails at the j-th step of its
validation loop (key missing, or colour outside the 17 names); all 20 x 2
failure points are enumerated in the corpus on top of the seeded histories.
Oracle: reference palette per object + structural reference renderer.
"""
import copy
import re

from .. import envmode
from ..kernel import Violation, canon
from ..kernel import quiet_print as _quiet_print
from ..gen import AA, gen_seq, CLASSES
from ..minimise import list_candidates

ID = "C20"
LEVEL = "fault_enumeration"
COLOURS = ['aqua', 'black', 'blue', 'fuchsia', 'gray', 'green', 'lime', 'maroon', 'navy', 'olive',
           'orange', 'purple', 'red', 'silver', 'teal', 'white', 'yellow']
BAD_COLOURS = ["pink", "#ff0000", "", None, 7, "redd", "re d", "grey", "red\n", "blue\n", "\nred", "red ", " red", "red\r\n", ["red"], {"colour": "red"}, ["red", "blue"], 3.5, True]
TIERS = {
    "quick": {"runs": 6000, "wall_cap": 100, "timeout": 180, "dups": 16},
    "thorough": {"runs": 120000, "wall_cap": 1500, "timeout": 180, "dups": 64},
}
RULE = ("Each run is a seeded history (3-24 ops) of set_HTMLColorResiduePalette / get_HTMLColorString / object creation "
        "interleaved over 1-3 live SequenceParameters objects (N 1-170); updates are valid or fail at one seeded step of "
        "the 20-step validation loop (missing key or non-standard colour). The corpus enumerates all 20x2 failure points "
        "against a customised palette. A run is non-trivial if at least one update was rejected while the object's palette "
        "was already customised, or a render happened under a customised palette; distinct = distinct event-log digests of such runs.")
SIG_RULE = "(op kind, palette customised?, failure step or 'ok', failure class, length bucket, object count)"
REAL = ["localcider.sequenceParameters.SequenceParameters (constructor, set_HTMLColorResiduePalette, get_HTMLColorString)",
        "localcider.backend.sequence.Sequence", "localcider.backend.data.aminoacids tables"]
STUBBED = ["none inside the calls (no clock, RNG or file access occurs; sequenceParameters.print shadowed by a sink)"]
ASSUMPTIONS = ["calls are atomic (no pre-emption inside a call); interleaving = which live object's call runs next",
               "capitalised colour names and lower-case residue keys are not generated (docstring and code disagree: ambiguity window)",
               "relative order of the space and the line break inside one gap is not asserted",
               "the default palette is whatever the pristine interpreter's aminoacids.DEFAULT_COLOR_PALETTE holds"]
PROBES = ["extra_keys_of_mixed_types", "shuffled_copy_is_live_object", "palette_in_dict_subclass", "update_not_followed_by_render", "same_dict_object_passed_again", "caller_mutates_its_dict_after_update", "reject_on_custom_palette", "reject_at_first_key", "reject_at_last_key", "render_len_gt_100",
          "render_len_multiple_of_50", "new_object_after_foreign_update", "accept_with_extra_keys"]


# ------------------------------------------------------------------ generation
def gen_palette(rnd, order):
    mode = rnd.random()
    if mode < 0.25:
        c = rnd.choice(COLOURS)
        return {a: c for a in order}
    return {a: rnd.choice(COLOURS) for a in order}


def break_palette(rnd, pal, order, j=None, how=None):
    pal = dict(pal)
    if j is None:
        j = rnd.randrange(len(order))
    if how is None:
        how = rnd.choice(("missing", "colour"))
    if how == "missing":
        del pal[order[j]]
    else:
        pal[order[j]] = rnd.choice(BAD_COLOURS)
    return pal, j, how


def gen_plan(streams, tier):
    rnd = streams.stream("plan")
    order = list(AA)
    nobj = rnd.choice((1, 1, 2, 2, 3))
    objs = []
    for _ in range(nobj):
        n = rnd.choice((rnd.randrange(1, 12), rnd.randrange(9, 62), rnd.choice((10, 11, 49, 50, 51, 100, 101, 150, 200, 201, 250)),
                        rnd.randrange(50, 171), rnd.randrange(150, 320)))
        objs.append(gen_seq(rnd, n))
    ops = []
    nops = rnd.randrange(3, 25)
    w_break = rnd.choice((0.2, 0.5, 0.8))
    for _ in range(nops):
        x = rnd.random()
        if x < 0.45:
            pal = gen_palette(rnd, order)
            if rnd.random() < 0.1:
                pal[rnd.choice(("X", "B", "Z", "*", "a"))] = rnd.choice(COLOURS)
            extra = None
            if rnd.random() < 0.1:
                # further keys that are not residues (of types that do not even compare with each other)
                extra = [[k_, rnd.choice(COLOURS + ["pink", 5])] for k_ in rnd.sample(["X", 7, None, 3.5, ["t", 1], "zz", True], rnd.randrange(1, 4))]
            op = {"k": "set", "o": rnd.randrange(nobj + 1), "pal": pal}
            if extra:
                op["extra_keys"] = extra
            if rnd.random() < 0.3:
                op["then_mutate"] = [rnd.choice(list(AA)), rnd.choice(COLOURS + ["pink"])]
            if rnd.random() < 0.35:
                op["same_dict"] = True          # the caller edits one dictionary object in place and passes it again
            elif rnd.random() < 0.3:
                op["container"] = rnd.choice(("OrderedDict", "defaultdict", "subclass"))
            if rnd.random() < 0.4:
                op["no_render_after"] = True    # several updates in a row with no render in between
            if rnd.random() < 0.15:
                op["kw"] = True
            if rnd.random() < w_break:
                op["pal"], op["j"], op["how"] = break_palette(rnd, pal, order)
            ops.append(op)
        elif x < 0.90:
            ops.append({"k": "render", "o": rnd.randrange(nobj + 1)})
        elif x < 0.93:
            ops.append({"k": "copy", "o": rnd.randrange(nobj + 1), "via": rnd.choice(("frozen_all", "frozen_all", "shuffle", "permutant", "deepcopy", "pickle"))})
        else:
            ops.append({"k": "new", "seq": gen_seq(rnd, rnd.randrange(1, 70))})
    return {"property": ID, "env": envmode.choose(rnd), "noise": (rnd.randrange(1 << 30) if rnd.random() < 0.2 else None), "run_seed": streams.run_seed, "objects": objs, "ops": ops}


def corpus():
    out = []
    order = list(AA)
    red = {a: "red" for a in order}
    blue = {a: "blue" for a in order}
    ops = [{"k": "set", "o": 0, "pal": red}, {"k": "render", "o": 0}]
    for j in range(20):
        for how in ("missing", "colour"):
            p = dict(blue)
            if how == "missing":
                del p[order[j]]
            else:
                p[order[j]] = "pink"
            ops.append({"k": "set", "o": 0, "pal": p, "j": j, "how": how})
            ops.append({"k": "render", "o": 1})
    out.append(("all_40_failure_points", {"property": ID, "run_seed": 20, "objects": [AA * 3, AA], "ops": ops}))
    ops2 = [{"k": "set", "o": 0, "pal": red, "same_dict": True}, {"k": "set", "o": 1, "pal": dict(blue, W="pink"), "j": 18, "how": "colour", "same_dict": True},
            {"k": "render", "o": 1}, {"k": "set", "o": 0, "pal": {a: "teal" for a in order if a != "C"}, "j": 1, "how": "missing", "same_dict": True},
            {"k": "set", "o": 1, "pal": blue, "same_dict": True}, {"k": "render", "o": 0}]
    out.append(("one_dict_object_edited_in_place", {"property": ID, "run_seed": 23, "objects": ["ACDEFGHIKLMNPQRSTVWY", "WYWYAC"], "ops": ops2}))
    teal = {a: "teal" for a in order}
    out.append(("two_updates_between_renders", {"property": ID, "run_seed": 24, "objects": ["ACDEFGHIKLMNPQRSTVWY"], "ops": [
        {"k": "render", "o": 0}, {"k": "set", "o": 0, "pal": red, "no_render_after": True}, {"k": "set", "o": 0, "pal": blue, "no_render_after": True},
        {"k": "render", "o": 0}, {"k": "set", "o": 0, "pal": teal, "no_render_after": True}, {"k": "set", "o": 0, "pal": dict(red, W=["red"]), "j": 18, "how": "colour", "no_render_after": True},
        {"k": "set", "o": 0, "pal": red, "no_render_after": True}, {"k": "render", "o": 0}]}))
    out.append(("valid_palette_in_dict_subclasses", {"property": ID, "run_seed": 25, "objects": ["ACDEFGHIKLMNPQRSTVWY"], "ops": [
        {"k": "set", "o": 0, "pal": red, "container": "OrderedDict"}, {"k": "set", "o": 0, "pal": blue, "container": "defaultdict"},
        {"k": "set", "o": 0, "pal": teal, "container": "subclass"}, {"k": "set", "o": 0, "pal": dict(red, Y={"colour": "red"}), "j": 19, "how": "colour"}, {"k": "render", "o": 0}]}))
    out.append(("copies_do_not_share_palettes", {"property": ID, "run_seed": 26, "objects": ["ACDEFGHIKLMNPQRSTVWY"], "ops": [
        {"k": "copy", "o": 0, "via": "frozen_all"}, {"k": "set", "o": 0, "pal": red}, {"k": "render", "o": 1}, {"k": "set", "o": 1, "pal": blue},
        {"k": "render", "o": 0}, {"k": "copy", "o": 0, "via": "frozen_all"}, {"k": "set", "o": 2, "pal": teal}, {"k": "render", "o": 0}, {"k": "render", "o": 1},
        {"k": "copy", "o": 1, "via": "permutant"}, {"k": "set", "o": 3, "pal": red}, {"k": "render", "o": 1}]}))
    out.append(("extra_keys_of_mixed_types", {"property": ID, "run_seed": 27, "objects": ["ACDEFGHIKLMNPQRSTVWY"], "ops": [
        {"k": "set", "o": 0, "pal": red, "extra_keys": [["X", "red"], [7, "blue"]]}, {"k": "render", "o": 0},
        {"k": "set", "o": 0, "pal": blue, "extra_keys": [[None, "pink"], [["t", 1], 5], ["zz", "red"]]}, {"k": "render", "o": 0}]}))
    out.append(("block_boundaries", {"property": ID, "run_seed": 21,
                                     "objects": ["A" * n for n in (1, 9, 10, 11, 49, 50, 51, 99, 100, 101, 150, 151)],
                                     "ops": [{"k": "render", "o": i} for i in range(12)]}))
    out.append(("foreign_update_then_new_object", {"property": ID, "run_seed": 22, "objects": ["GKEGKE"],
                                                   "ops": [{"k": "set", "o": 0, "pal": blue}, {"k": "new", "seq": "GKEGKEW"},
                                                           {"k": "render", "o": 1}, {"k": "render", "o": 0}]}))
    return out


# ------------------------------------------------------------------ reference
TOKEN = re.compile(r"<[^>]*>|[^<]+")
SPAN_TAG = re.compile(r"^<span(\s[^>]*)?>$", re.I)
STYLE_ATTR = re.compile(r"""\bstyle\s*=\s*(?:"([^"]*)"|'([^']*)')""", re.I)


class _M(object):
    def __init__(self, colour):
        self.colour = colour

    def group(self, i):
        return self.colour


class _Span(object):
    """matches an opening <span ...> whose style attribute (anywhere among its attributes, either
    quoting) declares a colour (anywhere among its declarations)"""

    @staticmethod
    def match(tag):
        if not SPAN_TAG.match(tag):
            return None
        m = STYLE_ATTR.search(tag)
        if not m:
            return None
        style = m.group(1) if m.group(1) is not None else m.group(2)
        for decl in style.split(";"):
            if ":" in decl:
                k, v = decl.split(":", 1)
                if k.strip().lower() == "color":
                    return _M(v.strip())
        return None


SPAN = _Span


def parse_render(html):
    """Structural parse: returns (residues, colours, gaps, trailing) where gaps[i] is the list of tokens
    ('sp' / 'br') between span i-1 and span i.  Only spans, spaces and line breaks carry meaning: the
    wrapper (<p>, <div>, ...) and any other tag are neutral, white space other than the plain space is
    ignored.  Raises ValueError for text outside spans or malformed spans."""
    toks = TOKEN.findall(html.strip())
    res, cols, gaps = [], [], []
    gap = []
    i = 0
    end = len(toks)
    while i < end:
        t = toks[i]
        if t.startswith("<"):
            if re.match(r"^<br\s*/?>$", t, re.I):
                gap.append("br")
                i += 1
                continue
            if re.match(r"^<span[\s>]", t, re.I):
                m = SPAN.match(t)
                if not m:
                    raise ValueError("span without a colour: %r" % t)
                # the residue is the text inside the span; formatting tags around it (<b>, <u>, ...) are neutral
                j, text = i + 1, []
                while j < end and not re.match(r"^</span\s*>$", toks[j], re.I):
                    if re.match(r"^<span[\s>]", toks[j], re.I):
                        raise ValueError("span inside a span at token %d" % j)
                    if not toks[j].startswith("<"):
                        text.append(toks[j])
                    j += 1
                if j >= end or not text:
                    raise ValueError("malformed span at token %d" % i)
                res.append("".join(text).strip("\n\r\t"))
                cols.append(m.group(1))
                gaps.append(gap)
                gap = []
                i = j + 1
                continue
            i += 1                      # any other tag (wrapper, formatting): neutral
        else:
            for ch in t:
                if ch == " ":
                    gap.append("sp")
                elif ch in "\n\r\t":
                    gap.append("ws")
                else:
                    raise ValueError("text %r outside a span" % t)
            i += 1
    return res, cols, gaps, gap


def check_render(html, seq, pal):
    """Returns None if html is a correct rendering of seq under pal, else a message."""
    if not isinstance(html, str):
        return "render returned %s" % type(html).__name__
    try:
        res, cols, gaps, trailing = parse_render(html)
    except ValueError as e:
        return "unparseable rendering: %s" % e
    if "".join(res) != seq:
        return "spans spell %r, sequence is %r" % ("".join(res)[:60], seq[:60])
    for i, (r, c) in enumerate(zip(res, cols)):
        if len(r) != 1:
            return "span %d holds %r" % (i, r)
        if c != pal[r]:
            return "residue %d (%s) coloured %r, palette says %r" % (i, r, c, pal[r])
        g = gaps[i]
        want_sp = (i % 10 == 0)
        want_br = (i % 50 == 0)
        if (g.count("sp") == 1) != want_sp or g.count("sp") > 1:
            return "gap before residue %d has %d spaces (block-of-10 start: %s)" % (i, g.count("sp"), want_sp)
        if (g.count("br") == 1) != want_br or g.count("br") > 1:
            return "gap before residue %d has %d line breaks (block-of-50 start: %s)" % (i, g.count("br"), want_br)
    if "sp" in trailing or "br" in trailing:
        # a space or a break after the last residue opens a block that holds nothing: the statement places spaces and
        # breaks at the opening of blocks of residues, and nowhere else (line-formatting white space such as "\n" is neutral)
        return "separator after the last residue"
    stripped = re.sub(r"<[^>]*>", "", html)
    stripped = re.sub(r"\s+", "", stripped)
    if stripped != seq:
        return "stripping the markup gives %r" % stripped[:60]
    return None


def is_valid(pal):
    for a in AA:
        if a not in pal:
            return False
        v = pal[a]
        if not isinstance(v, str) or v not in COLOURS:
            return False
    return True


# ------------------------------------------------------------------ execution
def execute(plan, ctx):
    import localcider.sequenceParameters as spmod
    from localcider.sequenceParameters import SequenceParameters
    envmode.apply(plan.get("env"), ctx)
    spmod.print = _quiet_print
    if plan.get("noise") is not None:
        from ..noise import noise_prelude
        noise_prelude(ctx, plan["noise"])
    try:
        probe_html = SequenceParameters(AA).get_HTMLColorString()
        r_, c_, g_, t_ = parse_render(probe_html)
        default = dict(zip(r_, c_))
        if sorted(default) != sorted(AA):
            raise ValueError("incomplete")
    except ValueError as e:
        raise Violation("render_mismatch", "render:default", "a fresh 20-residue object does not render one coloured span per residue (%s)" % e)
    objs, seqs, pals, custom = [], [], [], []
    foreign_update = [False]
    shared = {}
    shared_used = [False]
    try:
        import inspect
        kw_ok = "colorDict" in inspect.signature(SequenceParameters.set_HTMLColorResiduePalette).parameters
    except Exception:
        kw_ok = False

    def new(seq):
        o = SequenceParameters(seq)
        objs.append(o)
        seqs.append(seq)
        pals.append(dict(default))
        custom.append(False)
        ctx.log.emit("new", o=len(objs) - 1, n=len(seq))

    alias = {}

    def alias_edited(i):
        try:
            return i in alias and (len(alias[i]) < 20 or any(alias[i].get(a, None) != pals[i][a] for a in AA))
        except Exception:
            return i in alias

    last_rejected = [None]       # the dictionary object handed to the most recent update, if that update was rejected
                                 # and the caller has not touched it since

    def shows_rejected(i):
        # the palette of object i came from a dictionary object that the caller later edited and handed to an
        # update again, and that update was REJECTED: if the object now renders differently, what it shows is the
        # content of a rejected dictionary, which the last sentence of the statement excludes whichever way the
        # palette is stored
        return i in alias and last_rejected[0] is not None and alias[i] is last_rejected[0]

    def render_check(i, why):
        try:
            html = objs[i].get_HTMLColorString()
        except Exception as e:
            if alias_edited(i):
                if shows_rejected(i):
                    raise Violation("rejected_palette_visible", "render:rejected_same_dict", "object %d: rendering raises %r after an update with "
                                    "the (edited) dictionary its palette came from was rejected: the rejected content took effect" % (i, e))
                from ..kernel import Discard
                raise Discard("rendering fails after the caller edited the dictionary the palette came from (aliasing is not covered by the statement)")
            raise
        ctx.count("renders")
        msg = check_render(html, seqs[i], pals[i])
        if msg and i in alias:
            # the dictionary this palette came from has been edited by the caller since it was accepted: whether
            # the object took a copy is not said by the statement, so a rendering that no longer matches is not judged
            try:
                followed = any(alias[i].get(a, None) != pals[i][a] for a in AA) or len(alias[i]) < 20
            except Exception:
                followed = True
            if followed and shows_rejected(i):
                raise Violation("rejected_palette_visible", "render:rejected_same_dict", "object %d (N=%d) after %s: %s -- the dictionary its palette came from was "
                                "edited by the caller, handed to an update again and REJECTED, yet the object now renders the rejected content" % (i, len(seqs[i]), why, msg))
            if followed:
                from ..kernel import Discard
                raise Discard("the object's palette follows later edits of the dictionary it was given (aliasing is not covered by the statement)")
        ctx.log.emit("render", o=i, why=why, ok=msg is None, n=len(html) if isinstance(html, str) else -1)
        if msg:
            raise Violation("render_mismatch", "render:" + why, "object %d (N=%d) after %s: %s" % (i, len(seqs[i]), why, msg))
        if objs[i].get_sequence() != seqs[i]:
            raise Violation("sequence_changed", "render", "stored sequence changed")

    for s in plan["objects"]:
        new(s)
    import localcider.backend.sequence as seqmod
    from ..clock import SimClock
    from ..rng import RngModule, TapeRandom, UniformDriver
    from localcider.sequencePermutants import SequencePermutants
    clock = SimClock(ctx, ctx.streams.stream("clock"), "normal")
    drv = UniformDriver(ctx.streams.stream("tape"))
    seqmod.time = clock
    seqmod.rng = RngModule(lambda: TapeRandom("move", ctx, drv, 20000))
    for n, op in enumerate(plan["ops"]):
        k = op["k"]
        if k == "copy":
            # a shuffled copy is an object of its own: whatever palette it starts with (the default, or the
            # parent's at that moment), from now on only its own updates may change it
            i = op["o"] % len(objs)
            if op["via"] in ("deepcopy", "pickle"):
                import copy as _copy
                import pickle as _pickle
                try:
                    child = _copy.deepcopy(objs[i]) if op["via"] == "deepcopy" else _pickle.loads(_pickle.dumps(objs[i]))
                except Exception:
                    ctx.probe("object_cannot_be_copied")      # copying is not part of the statement
                    continue
            elif op["via"] == "permutant":
                child = SequencePermutants(seqs[i]).get_permutant()
            elif op["via"] == "frozen_all":
                child = objs[i].get_shuffled_sequence(set(range(len(seqs[i]))))
            else:
                child = objs[i].get_shuffled_sequence(set())
            cs = child.get_sequence()
            objs.append(child)
            seqs.append(cs)
            start = None
            html = child.get_HTMLColorString()
            for cand in ((pals[i], default) if op["via"] in ("deepcopy", "pickle") else (default, pals[i])):
                if check_render(html, cs, cand) is None:
                    start = dict(cand)
                    break
            if start is None and alias_edited(i):
                from ..kernel import Discard
                raise Discard("a copy of an object whose source dictionary was edited by the caller (aliasing is not covered by the statement)")
            if start is None:
                raise Violation("render_mismatch", "render:copy", "a shuffled copy of object %d renders under neither the default nor its parent's palette" % i)
            pals.append(start)
            custom.append(custom[i] and start == pals[i] and start != default)
            ctx.probe("shuffled_copy_is_live_object")
            ctx.log.emit("copy", o=i, via=op["via"], n=len(cs))
            continue
        if k == "new":
            new(op["seq"])
            if foreign_update[0]:
                ctx.probe("new_object_after_foreign_update")
            render_check(len(objs) - 1, "new")
            continue
        i = op["o"] % len(objs)
        N = len(seqs[i])
        if k == "render":
            if custom[i]:
                ctx.nontrivial = True
            if N > 100:
                ctx.probe("render_len_gt_100")
            if N % 50 == 0:
                ctx.probe("render_len_multiple_of_50")
            ctx.sig("render", custom[i], min(N // 10, 12), len(objs))
            render_check(i, "render")
            continue
        pal = copy.deepcopy(op["pal"])
        valid = is_valid(pal)
        raised = None
        passed = dict(pal)
        for k_, v_ in op.get("extra_keys") or []:
            passed[tuple(k_) if isinstance(k_, list) else k_] = v_
            ctx.probe("extra_keys_of_mixed_types")
        if op.get("container"):
            import collections
            if op["container"] == "OrderedDict":
                passed = collections.OrderedDict(pal)
            elif op["container"] == "defaultdict":
                passed = collections.defaultdict(lambda: "pink", pal)
            else:
                passed = type("Palette", (dict,), {})(pal)
            ctx.probe("palette_in_dict_subclass")
        if op.get("same_dict"):
            shared.clear()
            shared.update(pal)
            passed = shared
            if shared_used[0]:
                ctx.probe("same_dict_object_passed_again")
            shared_used[0] = True
        try:
            if op.get("kw") and kw_ok:
                objs[i].set_HTMLColorResiduePalette(colorDict=passed)
            else:
                objs[i].set_HTMLColorResiduePalette(passed)
        except Exception as e:
            raised = e
        if valid and raised is None:
            alias[i] = passed            # the dictionary object the palette came from (the caller may edit it later)
        last_rejected[0] = passed if (not valid and raised is not None) else None
        if op.get("then_mutate"):
            last_rejected[0] = None
            # the caller goes on editing its own dictionary afterwards.  Whether the object took a copy is not
            # said by the statement: if its rendering now follows the edited dictionary the run is not judged
            passed[op["then_mutate"][0]] = op["then_mutate"][1]
            ctx.probe("caller_mutates_its_dict_after_update")
            pass
        ctx.count("updates")
        ctx.log.emit("set", o=i, valid=valid, j=op.get("j"), how=op.get("how"), raised=type(raised).__name__ if raised else None)
        ctx.sig("set", custom[i], op.get("j", "ok"), op.get("how", "-"), len(objs))
        junk_bad = any((not isinstance(v_, str)) or v_ not in COLOURS for k_, v_ in list(passed.items()) if not (isinstance(k_, str) and k_ in AA)) if valid else False
        if valid and raised is None and junk_bad:
            # accepted, or refused quietly (values-wide validation without an exception)?  Both are allowed here;
            # the rendering tells which
            try:
                html_now = objs[i].get_HTMLColorString()
                if check_render(html_now, seqs[i], {a: pal[a] for a in AA}) is not None and check_render(html_now, seqs[i], pals[i]) is None:
                    ctx.probe("rejected_for_a_non_residue_entry")
                    valid = False
                    op = dict(op, j=None, how="junk")
            except Exception:
                pass
        if valid and raised is not None and junk_bad:
            # all 20 residues have a standard colour, but an entry that is not a residue carries a non-standard one:
            # a validator that looks at every value may refuse this dictionary, one that looks at the residues accepts it
            ctx.probe("rejected_for_a_non_residue_entry")
            valid = False
            op = dict(op, j=None, how="junk")
        if valid:
            if raised is not None:
                raise Violation("valid_palette_rejected", "set:valid",
                                "a dictionary giving all 20 residues a standard colour was rejected: %r" % (raised,))
            pals[i] = {a: pal[a] for a in AA}
            custom[i] = True
            foreign_update[0] = True
            if len(pal) > 20:
                ctx.probe("accept_with_extra_keys")
        else:
            ctx.fault("update_fails_at_validation_step")
            if custom[i]:
                ctx.probe("reject_on_custom_palette")
                ctx.nontrivial = True
            if op.get("j") == 0:
                ctx.probe("reject_at_first_key")
            if op.get("j") == 19:
                ctx.probe("reject_at_last_key")
            if raised is None:
                # no exception: an implementation may also refuse quietly (return value, warning).  What counts is
                # the effect: the object must still render under the palette it had
                ctx.probe("invalid_update_returned_normally")
                try:
                    html_now = objs[i].get_HTMLColorString()
                    still_old = check_render(html_now, seqs[i], pals[i]) is None
                except Exception:
                    still_old = False
                if not still_old:
                    raise Violation("invalid_palette_accepted", "set:invalid",
                                    "invalid dictionary (step %s, %s) was accepted: no exception, and the object no longer renders under its previous palette" % (op.get("j"), op.get("how")))
        # every live object must still render under *its* reference palette (unless the plan asks for
        # several updates in a row without a render in between: rendering is itself a call that may touch caches)
        if op.get("no_render_after"):
            ctx.probe("update_not_followed_by_render")
            continue
        for j in range(len(objs)):
            render_check(j, "after_set_ok" if valid else "after_rejected_set")
    for j in range(len(objs)):
        render_check(j, "end")
    ctx.count("ops", len(plan["ops"]))
    return None


def shrink(plan, res):
    for c in list_candidates(plan, "ops"):
        yield c
    # drop trailing objects that no op needs is not safe (o is taken modulo); shorten sequences instead
    for i, s in enumerate(plan["objects"]):
        for cut in (len(s) // 2, len(s) - 1):
            if 1 <= cut < len(s):
                c = copy.deepcopy(plan)
                c["objects"][i] = s[:cut]
                yield c
    for n, op in enumerate(plan["ops"]):
        if op["k"] == "set":
            base = {a: "red" for a in AA}
            pal = op["pal"]
            simp = {a: ("red" if (a in pal and pal[a] in COLOURS) else pal.get(a, None)) for a in AA if a in pal}
            if simp != pal:
                c = copy.deepcopy(plan)
                c["ops"][n]["pal"] = simp
                yield c
